------------------------------ MODULE GenUniv ------------------------------
(***************************************************************************)
(* Generator of decks with universes and FILL (C05, C09, C13, C08):        *)
(*   world  : c1 = -1 [TRCL] [FILL=u (tr)],  c2 = #1 -2 [FILL],  c3 = 2    *)
(*   U1     : 11 = -11, 12 = 11 -12 [FILL=U2 (tr)], 13 = 11 12             *)
(*   U2     : 21 = -21 [TRCL],  22 = #21                                   *)
(*   U3     : 31 = -31 32, 32 = #31                                        *)
(* with every FILL carrying a transformation chosen from TrSet or none,    *)
(* spelled by number / inline / starred, the container carrying a TRCL or  *)
(* not (so that "FILL without transformation follows the TRCL" and "FILL   *)
(* with transformation ignores it" are both reached), one universe reused  *)
(* in two containers with different transformations (cache paths), nesting *)
(* to depth 3 and a filler cell with its own TRCL.                         *)
(***************************************************************************)
EXTENDS Geom, TLC, Json

CONSTANT Lvl

Card(n, k, p) == [n |-> n, k |-> k, p |-> p, d |-> 1, tr |-> 0, bc |-> "", hlen |-> 0, flen |-> 0]
Surfs == << Card(1, "so", <<3>>), Card(2, "so", <<5>>),
            Card(11, "px", <<0>>), Card(12, "py", <<1>>),
            Card(21, "s", <<1, 0, 0, 1>>), Card(31, "pz", <<0>>), Card(32, "c/z", <<0, 1, 2>>),
            (* a slab: "-41 42" turns a one-operand cell into a three-operand one *)
            Card(41, "pz", <<1>>), Card(42, "pz", <<-2>>) >>

Tr(o, m) == [o |-> o, m |-> m]
IdM == <<1,0,0, 0,1,0, 0,0,1>>
(* -1 and -2 have the same hash in CPython: two placements that differ only there must stay two placements *)
TrSet == IF Lvl = 1
         THEN { Tr(<<1,0,0>>, IdM), Tr(<<0,1,-1>>, <<0,1,0, -1,0,0, 0,0,1>>), Tr(<<0,0,1>>, <<-1,0,0, 0,1,0, 0,0,-1>>),
                Tr(<<-1,0,0>>, IdM), Tr(<<-2,0,0>>, IdM) }
         ELSE { Tr(<<1,0,0>>, IdM), Tr(<<0,-1,1>>, IdM), Tr(<<0,1,-1>>, <<0,1,0, -1,0,0, 0,0,1>>),
                Tr(<<0,0,1>>, <<-1,0,0, 0,1,0, 0,0,-1>>), Tr(<<1,0,1>>, <<0,1,0, 0,0,1, 1,0,0>>),
                Tr(<<0,0,0>>, <<0,0,-1, 0,1,0, 1,0,0>>) }
NoTr == Tr(<<0,0,0>>, IdM)
Spells == {"num", "12", "star"}
(* an optional transformation: [has, tr, spell]; pure translations - the explicit null translation *)
(* included - may also be spelled with three entries                                              *)
OptTr == { [has |-> FALSE, tr |-> NoTr, spell |-> "num"] }
         \cup { [has |-> TRUE, tr |-> t, spell |-> s] : t \in TrSet, s \in Spells }
         \cup { [has |-> TRUE, tr |-> t, spell |-> sp] : t \in { x \in TrSet \cup {NoTr} : x.m = IdM }, sp \in {"3", "star3"} }
SmallTr == { [has |-> FALSE, tr |-> NoTr, spell |-> "num"] }
           \cup { [has |-> TRUE, tr |-> t, spell |-> s] : t \in { x \in TrSet : x.m = IdM \/ Lvl = 2 }, s \in {"num", "12"} }

Cell(n, geom, u) == [n |-> n, geom |-> geom, u |-> u, imp |-> 1, fill |-> 0,
                     hasftr |-> FALSE, ftr |-> NoTr, ftrspell |-> "num",
                     hastrcl |-> FALSE, trcl |-> NoTr, trclspell |-> "num"]
WithFill(c, u, ot) == [c EXCEPT !.fill = u, !.hasftr = ot.has, !.ftr = ot.tr, !.ftrspell = ot.spell]
WithTrcl(c, ot) == [c EXCEPT !.hastrcl = ot.has, !.trcl = ot.tr, !.trclspell = ot.spell]
S(n) == <<"S", n, 0>>

VARIABLES pc, cells
Init == pc = "c1" /\ cells = <<>>

(* container 1: always filled with U1 *)
(* a cell with one operand or with three (cut by a slab); a complemented cell (#n) with a TRCL            *)
(* may have zero importance                                                                          *)
Wide(s, wide) == IF wide THEN <<"*", s, S(-41), S(42)>> ELSE s
C1 == /\ pc = "c1"
      /\ \E ft \in OptTr, tc \in SmallTr, wide \in BOOLEAN, imp \in {0, 1} :
           cells' = << [WithTrcl(WithFill(Cell(1, Wide(S(-1), wide), 0), 1, ft), tc) EXCEPT !.imp = imp] >>
      /\ pc' = "c2"
(* container 2: plain, or filled with U1 again (reuse), or with U3 *)
C2 == /\ pc = "c2"
      /\ \E mode \in {"plain", "reuse", "u3"}, ft \in OptTr, imp \in {0, 1} :
           LET base == [Cell(2, <<"*", <<"C", 1>>, S(-2)>>, 0) EXCEPT !.imp = imp]
               c2 == CASE mode = "plain" -> base
                       [] mode = "reuse" -> WithFill(base, 1, ft)
                       [] OTHER -> WithFill(base, 3, ft)
           IN cells' = cells \o << c2, [Cell(3, S(2), 0) EXCEPT !.imp = 0] >>
      /\ pc' = "u1"
(* universe 1, its middle cell possibly filled with U2; optionally its third cell is split by the   *)
(* container's own surface 1, so that one part is PATENTLY empty inside container 1 (same surface  *)
(* with both signs after flattening) while it is not empty inside container 2                      *)
U1 == /\ pc = "u1"
      /\ \E nested \in BOOLEAN, ft \in OptTr, split \in BOOLEAN :
           LET c12 == Cell(12, <<"*", S(11), S(-12)>>, 1)
               third == IF split
                        THEN << Cell(13, <<"*", S(11), S(12), S(1)>>, 1), Cell(14, <<"*", S(11), S(12), S(-1)>>, 1) >>
                        ELSE << Cell(13, <<"*", S(11), S(12)>>, 1) >>
           IN cells' = cells \o << Cell(11, S(-11), 1), IF nested THEN WithFill(c12, 2, ft) ELSE c12 >> \o third
      /\ pc' = "u2"
(* universe 2 (filler with its own TRCL) and universe 3 *)
U2 == /\ pc = "u2"
      /\ \E tc \in SmallTr, w \in BOOLEAN :
           cells' = cells \o << WithTrcl(Cell(21, Wide(S(-21), w), 2), tc), Cell(22, <<"C", 21>>, 2),
                                Cell(31, <<"*", S(-31), S(32)>>, 3), Cell(32, <<"C", 31>>, 3) >>
      /\ pc' = "emit"
UsedU == { cells[i].fill : i \in 1..Len(cells) } \ {0}
Emit == /\ pc = "emit"
        /\ LET keep == SelectSeq(cells, LAMBDA c : c.u = 0 \/ c.u \in UsedU)
           IN PrintT(ToJson([cells |-> keep, surfs |-> Surfs]))
        /\ pc' = "done" /\ UNCHANGED cells
Next == C1 \/ C2 \/ U1 \/ U2 \/ Emit
=============================================================================
