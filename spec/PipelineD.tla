----------------------------- MODULE PipelineD -----------------------------
(***************************************************************************)
(* DETERMINISTIC TRANSCRIPTION of the Boolean core of the converter        *)
(* (operators in ConvCore.tla) as a state machine                          *)
(*      build -> flagged -> optimised -> converted -> dedup -> pruned      *)
(*            -> final                                                     *)
(* over a complement-free cell expression built by the stack machine of    *)
(* GenExpr.  "Points" are ALL sense assignments of the surfaces that are   *)
(* consistent with the duplicate classes and with the two auxiliary planes *)
(* (PLANEX 1, PLANEX -1: x > 1 implies x > -1), so the design check        *)
(*      PipelineD => "the volume of the cell denotes the expression"       *)
(* is exhaustive over points for every explored expression.  TLC checks    *)
(* MeaningPreserved and Wellformed in every state; the harness replays the *)
(* same expressions into the real pot_convert and reports the structural   *)
(* agreement of the two volume dictionaries modulo renaming.               *)
(***************************************************************************)
EXTENDS ConvCore
CONSTANT MaxLeaves

(***************************************************************************)
(* the machine                                                             *)
(***************************************************************************)
CellKey == 1                     \* the MCNP cell number; invented ids start above FirstFree
FirstFree == 10
VARIABLES pc, stack, nleaf, tree, ftree, otree, vols, root
vars == <<pc, stack, nleaf, tree, ftree, otree, vols, root>>
Leaves == { <<"S", s * n>> : s \in {-1, 1}, n \in 1..NSurf }
Init == /\ pc = "build" /\ stack = <<>> /\ nleaf = 0 /\ tree = NONE /\ ftree = NONE /\ otree = NONE
        /\ vols = << >> /\ root = 0
Push == /\ pc = "build" /\ nleaf < MaxLeaves /\ \E l \in Leaves : stack' = Append(stack, l)
        /\ nleaf' = nleaf + 1 /\ UNCHANGED <<pc, tree, ftree, otree, vols, root>>
Combine == /\ pc = "build" /\ Len(stack) >= 2
           /\ \E op \in {"*", ":"} :
                stack' = Append(SubSeq(stack, 1, Len(stack) - 2), <<op, stack[Len(stack) - 1], stack[Len(stack)]>>)
           /\ UNCHANGED <<pc, nleaf, tree, ftree, otree, vols, root>>
Finish == /\ pc = "build" /\ Len(stack) = 1 /\ tree' = stack[1] /\ pc' = "flag"
          /\ UNCHANGED <<stack, nleaf, ftree, otree, vols, root>>
Flag == /\ pc = "flag" /\ ftree' = FlagT(tree, FirstFree).t /\ pc' = "optimise"
        /\ UNCHANGED <<stack, nleaf, tree, otree, vols, root>>
Optimise == /\ pc = "optimise" /\ otree' = OptT(ftree) /\ pc' = "convert"
            /\ UNCHANGED <<stack, nleaf, tree, ftree, vols, root>>
Convert == /\ pc = "convert"
           /\ IF IsNone(otree) THEN vols' = << >> /\ root' = 0
              ELSE LET r == ToT4(otree, EmptyState(FlagT(tree, FirstFree).next, << >>))
                   IN IF r.id = 0 THEN vols' = r.st.vols /\ root' = 0
                      ELSE /\ vols' = Put(r.st.vols, CellKey, [r.st.vols[r.id] EXCEPT !.fict = FALSE])
                           /\ root' = CellKey
           /\ pc' = "dedup" /\ UNCHANGED <<stack, nleaf, tree, ftree, otree>>
(* remove_duplicate_surfaces + renumber_surfaces (the auxiliary planes are part of the numbering) *)
Dedup == /\ pc = "dedup"
         /\ vols' = DedupVols(vols)
         /\ pc' = "prune" /\ UNCHANGED <<stack, nleaf, tree, ftree, otree, root>>
Prune == /\ pc = "prune"
         /\ vols' = PruneVols(vols)
         /\ pc' = "unused" /\ UNCHANGED <<stack, nleaf, tree, ftree, otree, root>>
Unused == /\ pc = "unused"
          /\ vols' = UnusedVols(vols)
          /\ pc' = "final" /\ UNCHANGED <<stack, nleaf, tree, ftree, otree, root>>
VolJson(id) == [id |-> id, plus |-> vols[id].plus, minus |-> vols[id].minus, op |-> vols[id].op,
                args |-> vols[id].args, fict |-> vols[id].fict]
Emit == /\ pc = "final"
        /\ PrintT(ToJson([tree |-> tree, vols |-> { VolJson(id) : id \in DOMAIN vols }, root |-> root]))
        /\ pc' = "done" /\ UNCHANGED <<stack, nleaf, tree, ftree, otree, vols, root>>
Next == Push \/ Combine \/ Finish \/ Flag \/ Optimise \/ Convert \/ Dedup \/ Prune \/ Unused \/ Emit
Spec == Init /\ [][Next]_vars

(***************************************************************************)
(* properties                                                              *)
(***************************************************************************)
AfterConvert == pc \in {"dedup", "prune", "unused", "final", "done"}
(* the volume that carries the cell number denotes the expression; no volume <=> the expression is empty *)
MeaningPreserved ==
  AfterConvert =>
    \A a \in Assignments :
      EvalT(tree, a) = (CellKey \in DOMAIN vols /\ InVolA(vols, CellKey, a, 12))
(* C08 at design level: references resolve, nothing on both sides once pruning is done *)
Wellformed ==
  /\ AfterConvert => \A id \in DOMAIN vols : ToSet(vols[id].args) \subseteq DOMAIN vols \/ pc \in {"dedup", "prune"}
  /\ pc \in {"final", "done"} =>
       \A id \in DOMAIN vols : /\ ToSet(vols[id].args) \subseteq DOMAIN vols
                               /\ vols[id].plus \cap vols[id].minus = {}
                               /\ (vols[id].op # "NONE" => vols[id].args # <<>>)
                               /\ vols[id].plus \cup vols[id].minus \subseteq { Rep(s) : s \in AllS }
(* the optimiser only declares emptiness when the expression is unsatisfiable *)
OptimiseSound == (pc \in {"convert"} /\ IsNone(otree)) => \A a \in Assignments : ~EvalT(tree, a)
=============================================================================
