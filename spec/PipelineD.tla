----------------------------- MODULE PipelineD -----------------------------
(***************************************************************************)
(* DETERMINISTIC TRANSCRIPTION of the Boolean core of the converter        *)
(* (CellConversion.pot_flag / pot_optimise / pot_to_t4_cell /              *)
(* convert_surface, Duplicates.remove_duplicate_surfaces + renumber_       *)
(* surfaces, ConstructVolumeT4.remove_empty_volumes / remove_unused_       *)
(* volumes) as a state machine                                             *)
(*      build -> flagged -> optimised -> converted -> dedup -> pruned      *)
(*            -> final                                                     *)
(* over a complement-free cell expression built by the stack machine of    *)
(* GenExpr.  "Points" are ALL sense assignments of the surfaces that are   *)
(* consistent with the duplicate classes and with the two auxiliary planes *)
(* (PLANEX 1, PLANEX -1: x > 1 implies x > -1), so the design check        *)
(*      PipelineD => "the volume of the cell denotes the expression"       *)
(* is exhaustive over points for every explored expression.  TLC checks    *)
(* MeaningPreserved and Wellformed in every state; the harness replays the *)
(* same expressions into the real pot_convert and reports the structural   *)
(* agreement of the two volume dictionaries modulo renaming.               *)
(***************************************************************************)
EXTENDS Integers, Sequences, FiniteSets, TLC, Json

CONSTANTS MaxLeaves, NSurf, Dups
(* Dups: set of pairs <<i, j>> (i < j) of surface numbers describing the same surface; *)
(* surfaces NSurf+1, NSurf+2 are the auxiliary planes U0 = PLANEX 1, U1 = PLANEX -1    *)
(* the configurations used by the harness (a .cfg file cannot spell sets of tuples) *)
DupsNone == {}
DupsDeck == {<<1, 3>>}          \* deck surfaces 1 and 3 are the same surface
DupsAux0 == {<<2, 4>>}          \* deck surface 2 is PLANEX 1, i.e. the auxiliary plane U0 (NSurf = 3)
DupsAux1 == {<<3, 5>>}          \* deck surface 3 is PLANEX -1, i.e. the auxiliary plane U1 (NSurf = 3)
U0 == NSurf + 1
U1 == NSurf + 2
AllS == 1..(NSurf + 2)
NONE == <<"NONE">>
IsLeaf(t) == t[1] = "S"
IsNone(t) == t[1] = "NONE"

(***************************************************************************)
(* meaning                                                                 *)
(***************************************************************************)
Rep(i) == IF \E p \in Dups : p[2] = i THEN (CHOOSE p \in Dups : p[2] = i)[1] ELSE i
Assignments == { a \in [AllS -> BOOLEAN] : /\ \A i \in AllS : a[i] = a[Rep(i)]
                                           /\ (a[U0] => a[U1]) }
RECURSIVE EvalT(_, _)
EvalT(t, a) == CASE IsLeaf(t) -> IF t[2] > 0 THEN a[t[2]] ELSE ~a[-t[2]]
                 [] t[1] = "*" -> \A i \in 2..Len(t) : EvalT(t[i], a)
                 [] OTHER -> \E i \in 2..Len(t) : EvalT(t[i], a)
ToSet(s) == { s[i] : i \in 1..Len(s) }
RECURSIVE InVolA(_, _, _, _)
InVolA(vols, id, a, fuel) ==
  IF fuel = 0 \/ id \notin DOMAIN vols THEN FALSE ELSE
  LET v == vols[id]
      eq == (\A s \in v.plus : a[s]) /\ (\A s \in v.minus : ~a[s])
  IN IF v.op = "NONE" THEN eq
     ELSE IF v.op = "UNION" THEN eq \/ (\E x \in ToSet(v.args) : InVolA(vols, x, a, fuel - 1))
     ELSE eq /\ (\A x \in ToSet(v.args) : InVolA(vols, x, a, fuel - 1))

(***************************************************************************)
(* pot_flag: ids in post-order (children before their parent)              *)
(***************************************************************************)
RECURSIVE FlagT(_, _), FlagKids(_, _, _, _)
FlagKids(t, i, next, acc) ==
  IF i > Len(t) THEN [ts |-> acc, next |-> next]
  ELSE LET r == FlagT(t[i], next) IN FlagKids(t, i + 1, r.next, Append(acc, r.t))
FlagT(t, next) ==
  IF IsLeaf(t) THEN [t |-> t, next |-> next]
  ELSE LET k == FlagKids(t, 2, next, <<>>) IN [t |-> <<t[1], k.next + 1>> \o k.ts, next |-> k.next + 1]

(***************************************************************************)
(* pot_optimise                                                            *)
(***************************************************************************)
Kids(t) == SubSeq(t, 3, Len(t))
RECURSIVE OptT(_), Concat(_, _)
Concat(ss, i) == IF i > Len(ss) THEN <<>> ELSE ss[i] \o Concat(ss, i + 1)
OptT(t) ==
  IF IsLeaf(t) THEN t
  ELSE LET ks == [i \in 1..(Len(t) - 2) |-> OptT(t[i + 2])] IN
       IF t[1] = "*" /\ \E i \in 1..Len(ks) : IsNone(ks[i]) THEN NONE
       ELSE LET live == SelectSeq(ks, LAMBDA k : ~IsNone(k))
                flat == Concat([i \in 1..Len(live) |->
                                  IF ~IsLeaf(live[i]) /\ live[i][1] = t[1] THEN Kids(live[i]) ELSE <<live[i]>>], 1)
                leaves == { flat[i][2] : i \in { j \in 1..Len(flat) : IsLeaf(flat[j]) } }
            IN IF t[1] = "*" /\ \E s \in leaves : -s \in leaves THEN NONE
               ELSE <<t[1], t[2]>> \o flat

(***************************************************************************)
(* pot_to_t4_cell / convert_surface; state st = [vols, next, scache]       *)
(***************************************************************************)
Put(f, k, v) == [x \in DOMAIN f \cup {k} |-> IF x = k THEN v ELSE f[x]]
Vol(p, m, op, args) == [plus |-> p, minus |-> m, op |-> op, args |-> args, fict |-> TRUE]
ConvSurf(s, st) ==
  IF s \in DOMAIN st.scache THEN [st |-> st, id |-> st.scache[s]]
  ELSE LET id == st.next + 1
       IN [st |-> [vols |-> Put(st.vols, id, Vol(IF s > 0 THEN {s} ELSE {}, IF s < 0 THEN {-s} ELSE {}, "NONE", <<>>)),
                   next |-> id, scache |-> Put(st.scache, s, id)],
           id |-> id]
PlusOf(ks) == { ks[i][2] : i \in { j \in 1..Len(ks) : IsLeaf(ks[j]) /\ ks[j][2] > 0 } }
MinusOf(ks) == { -ks[i][2] : i \in { j \in 1..Len(ks) : IsLeaf(ks[j]) /\ ks[j][2] < 0 } }
IsPure(k) == IsLeaf(k) \/ (k[1] = "*" /\ \A i \in 3..Len(k) : IsLeaf(k[i]))
SizeOf(k) == IF IsLeaf(k) THEN 1 ELSE Len(k)
(* largestPureIntersectionNode: first index of maximal size among the pure operands, 0 if none *)
Largest(ks) ==
  LET pure == { i \in 1..Len(ks) : IsPure(ks[i]) } IN
  IF pure = {} THEN 0
  ELSE CHOOSE i \in pure : /\ \A j \in pure : SizeOf(ks[j]) <= SizeOf(ks[i])
                           /\ \A j \in pure : j < i => SizeOf(ks[j]) < SizeOf(ks[i])
Without(ks, i) == SubSeq(ks, 1, i - 1) \o SubSeq(ks, i + 1, Len(ks))
NonZero(ids) == SelectSeq(ids, LAMBDA x : x # 0)
RECURSIVE ToT4(_, _), ToT4List(_, _, _, _)
ToT4List(ks, i, st, acc) ==
  IF i > Len(ks) THEN [st |-> st, ids |-> acc]
  ELSE LET r == ToT4(ks[i], st) IN ToT4List(ks, i + 1, r.st, Append(acc, r.id))
ToT4(t, st) ==
  IF IsLeaf(t) THEN ConvSurf(t[2], st)
  ELSE
    LET pid == t[2]  ks == Kids(t) IN
    IF t[1] = "*" THEN
      LET r == ToT4List(SelectSeq(ks, LAMBDA k : ~IsLeaf(k)), 1, st, <<>>) IN
      IF \E i \in 1..Len(r.ids) : r.ids[i] = 0 THEN [st |-> r.st, id |-> 0]
      ELSE [st |-> [r.st EXCEPT !.vols = Put(@, pid, Vol(PlusOf(ks), MinusOf(ks),
                                                       IF r.ids = <<>> THEN "NONE" ELSE "INTE", r.ids))],
            id |-> pid]
    ELSE
      LET lg == Largest(ks) IN
      IF lg = 0 THEN
        LET r == ToT4List(ks, 1, st, <<>>)  ids == NonZero(r.ids) IN
        IF ids = <<>> THEN [st |-> r.st, id |-> 0]
        ELSE [st |-> [r.st EXCEPT !.vols = Put(@, pid, Vol({U0}, {U1}, "UNION", ids))], id |-> pid]
      ELSE
        LET rm == ToT4(ks[lg], st)
            r == ToT4List(Without(ks, lg), 1, rm.st, <<>>)
            ids == NonZero(r.ids)
            mv == r.st.vols[rm.id]
        IN [st |-> [r.st EXCEPT !.vols = Put(@, pid, Vol(mv.plus, mv.minus,
                                                         IF ids = <<>> THEN "NONE" ELSE "UNION", ids))],
            id |-> pid]

(***************************************************************************)
(* the machine                                                             *)
(***************************************************************************)
CellKey == 1                     \* the MCNP cell number; invented ids start above FirstFree
FirstFree == 10
VARIABLES pc, stack, nleaf, tree, ftree, otree, vols, root
vars == <<pc, stack, nleaf, tree, ftree, otree, vols, root>>
Leaves == { <<"S", s * n>> : s \in {-1, 1}, n \in 1..NSurf }
Init == /\ pc = "build" /\ stack = <<>> /\ nleaf = 0 /\ tree = NONE /\ ftree = NONE /\ otree = NONE
        /\ vols = << >> /\ root = 0
Push == /\ pc = "build" /\ nleaf < MaxLeaves /\ \E l \in Leaves : stack' = Append(stack, l)
        /\ nleaf' = nleaf + 1 /\ UNCHANGED <<pc, tree, ftree, otree, vols, root>>
Combine == /\ pc = "build" /\ Len(stack) >= 2
           /\ \E op \in {"*", ":"} :
                stack' = Append(SubSeq(stack, 1, Len(stack) - 2), <<op, stack[Len(stack) - 1], stack[Len(stack)]>>)
           /\ UNCHANGED <<pc, nleaf, tree, ftree, otree, vols, root>>
Finish == /\ pc = "build" /\ Len(stack) = 1 /\ tree' = stack[1] /\ pc' = "flag"
          /\ UNCHANGED <<stack, nleaf, ftree, otree, vols, root>>
Flag == /\ pc = "flag" /\ ftree' = FlagT(tree, FirstFree).t /\ pc' = "optimise"
        /\ UNCHANGED <<stack, nleaf, tree, otree, vols, root>>
Optimise == /\ pc = "optimise" /\ otree' = OptT(ftree) /\ pc' = "convert"
            /\ UNCHANGED <<stack, nleaf, tree, ftree, vols, root>>
Convert == /\ pc = "convert"
           /\ IF IsNone(otree) THEN vols' = << >> /\ root' = 0
              ELSE LET r == ToT4(otree, [vols |-> << >>, next |-> FlagT(tree, FirstFree).next, scache |-> << >>])
                   IN IF r.id = 0 THEN vols' = r.st.vols /\ root' = 0
                      ELSE /\ vols' = Put(r.st.vols, CellKey, [r.st.vols[r.id] EXCEPT !.fict = FALSE])
                           /\ root' = CellKey
           /\ pc' = "dedup" /\ UNCHANGED <<stack, nleaf, tree, ftree, otree>>
(* remove_duplicate_surfaces + renumber_surfaces (the auxiliary planes are part of the numbering) *)
Dedup == /\ pc = "dedup"
         /\ vols' = [id \in DOMAIN vols |-> [vols[id] EXCEPT !.plus = { Rep(s) : s \in @ }, !.minus = { Rep(s) : s \in @ }]]
         /\ pc' = "prune" /\ UNCHANGED <<stack, nleaf, tree, ftree, otree, root>>
(* remove_empty_volumes, with the (renumbered) auxiliary planes *)
Empty(v) == v.plus \cap v.minus # {}
RECURSIVE PruneLoop(_, _, _)
PruneLoop(vs, toRemove, fuel) ==
  IF toRemove = {} \/ fuel = 0 THEN vs
  ELSE
    LET gone == { id \in toRemove : vs[id].op # "UNION" }
        patched == [id \in DOMAIN vs \ gone |->
                      IF id \in toRemove THEN [vs[id] EXCEPT !.plus = {Rep(U0)}, !.minus = {Rep(U1)}] ELSE vs[id]]
        upd == [id \in DOMAIN patched |->
                  LET v == patched[id] IN
                  IF v.op = "UNION"
                  THEN LET na == SelectSeq(v.args, LAMBDA x : x \notin gone)
                       IN IF na = <<>> THEN [v EXCEPT !.op = "NONE", !.args = <<>>] ELSE [v EXCEPT !.args = na]
                  ELSE v]
        next == { id \in DOMAIN upd : upd[id].op = "INTE" /\ \E x \in ToSet(upd[id].args) : x \in gone }
    IN PruneLoop(upd, next, fuel - 1)
Prune == /\ pc = "prune"
         /\ vols' = PruneLoop(vols, { id \in DOMAIN vols : Empty(vols[id]) }, 20)
         /\ pc' = "unused" /\ UNCHANGED <<stack, nleaf, tree, ftree, otree, root>>
Unused == /\ pc = "unused"
          /\ LET used == UNION { ToSet(vols[id].args) : id \in DOMAIN vols }
             IN vols' = [id \in { x \in DOMAIN vols : ~vols[x].fict \/ x \in used } |-> vols[id]]
          /\ pc' = "final" /\ UNCHANGED <<stack, nleaf, tree, ftree, otree, root>>
VolJson(id) == [id |-> id, plus |-> vols[id].plus, minus |-> vols[id].minus, op |-> vols[id].op,
                args |-> vols[id].args, fict |-> vols[id].fict]
Emit == /\ pc = "final"
        /\ PrintT(ToJson([tree |-> tree, vols |-> { VolJson(id) : id \in DOMAIN vols }, root |-> root]))
        /\ pc' = "done" /\ UNCHANGED <<stack, nleaf, tree, ftree, otree, vols, root>>
Next == Push \/ Combine \/ Finish \/ Flag \/ Optimise \/ Convert \/ Dedup \/ Prune \/ Unused \/ Emit
Spec == Init /\ [][Next]_vars

(***************************************************************************)
(* properties                                                              *)
(***************************************************************************)
AfterConvert == pc \in {"dedup", "prune", "unused", "final", "done"}
(* the volume that carries the cell number denotes the expression; no volume <=> the expression is empty *)
MeaningPreserved ==
  AfterConvert =>
    \A a \in Assignments :
      EvalT(tree, a) = (CellKey \in DOMAIN vols /\ InVolA(vols, CellKey, a, 12))
(* C08 at design level: references resolve, nothing on both sides once pruning is done *)
Wellformed ==
  /\ AfterConvert => \A id \in DOMAIN vols : ToSet(vols[id].args) \subseteq DOMAIN vols \/ pc \in {"dedup", "prune"}
  /\ pc \in {"final", "done"} =>
       \A id \in DOMAIN vols : /\ ToSet(vols[id].args) \subseteq DOMAIN vols
                               /\ vols[id].plus \cap vols[id].minus = {}
                               /\ (vols[id].op # "NONE" => vols[id].args # <<>>)
                               /\ vols[id].plus \cup vols[id].minus \subseteq { Rep(s) : s \in AllS }
(* the optimiser only declares emptiness when the expression is unsatisfiable *)
OptimiseSound == (pc \in {"convert"} /\ IsNone(otree)) => \A a \in Assignments : ~EvalT(tree, a)
=============================================================================
