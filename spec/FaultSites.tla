------------------------------ MODULE FaultSites ------------------------------
(***************************************************************************)
(* C17, "injected at every applicable card of otherwise valid generated    *)
(* decks": for a deck (the projection written by faultsites.view) this     *)
(* module defines the set of fault records of the deck - one per           *)
(* (class, card, variant) - that MUST stop the run.  A card is applicable  *)
(* only where the converter has to interpret it: cells that are converted  *)
(* (importance not zero, reachable from the real world through FILL and    *)
(* lattice arrays), the surfaces those cells name, the TR cards those      *)
(* surfaces and cells name.  The harness applies each record to the        *)
(* abstract deck, runs the control and the injected deck through the real  *)
(* entry point and TraceFault.tla judges the recorded outcomes.            *)
(*                                                                         *)
(* deck view:  surfs : Seq([n, k, np, tr])                                 *)
(*             cells : Seq([n, imp, u, fill, lat, like, leaves : Seq(<<n, facet>>),                           *)
(*                          ftr, trcl (0 none, 1 by number, 2 inline), trclnum,                              *)
(*                          lunivs, nranges, latopt, nvecs, ranges : Seq(<<lo, hi>>)])                       *)
(*             trs : Seq([n])   mats : Seq([n, nfrac])   impcards : Seq(number of entries)                   *)
(***************************************************************************)
EXTENDS FaultTables, IOUtils

BlockDecks(b) == JsonDeserialize(IOEnv.TRACE_DIR \o "/b" \o ToString(b) \o ".json")
NB == 64

Site(class, site, variant, a, b) == [class |-> class, site |-> site, variant |-> variant, a |-> a, b |-> b, arg |-> <<>>]
SiteArg(class, site, variant, a, arg) == [class |-> class, site |-> site, variant |-> variant, a |-> a, b |-> 0, arg |-> arg]
ToSet(s) == { s[i] : i \in 1..Len(s) }
Abs(n) == IF n < 0 THEN -n ELSE n

(* universes reachable from the real world through converted cells *)
RECURSIVE Reach(_, _)
Reach(d, U) ==
  LET src == { i \in 1..Len(d.cells) : d.cells[i].u \in U /\ d.cells[i].imp # 0 }
      new == U \cup { d.cells[i].fill : i \in { j \in src : d.cells[j].fill # 0 } }
               \cup UNION { ToSet(d.cells[i].lunivs) : i \in { j \in src : d.cells[j].lat # 0 } }
  IN IF new = U THEN U ELSE Reach(d, new)
Live(d) == LET R == Reach(d, {0})
           IN { i \in 1..Len(d.cells) : d.cells[i].imp # 0 /\ d.cells[i].like = 0 /\ d.cells[i].u \in R }
(* lattice cells may also be written LIKE n BUT ...: they need their own --lattice ranges *)
LiveL(d) == LET R == Reach(d, {0})
            IN { i \in 1..Len(d.cells) : d.cells[i].imp # 0 /\ d.cells[i].u \in R }
UsedSurfNums(d) == UNION { { Abs(d.cells[i].leaves[j][1]) : j \in 1..Len(d.cells[i].leaves) } : i \in Live(d) }
UsedSurfs(d) == { i \in 1..Len(d.surfs) : d.surfs[i].n \in UsedSurfNums(d) }
SurfIndex(d, n) == IF \E i \in 1..Len(d.surfs) : d.surfs[i].n = n
                   THEN CHOOSE i \in 1..Len(d.surfs) : d.surfs[i].n = n ELSE 0

(* a wrong number of surface or macrobody parameters: one entry dropped, one entry added *)
CountSites(d) ==
  UNION { LET s == d.surfs[i] IN
          IF s.k \notin DOMAIN CardCounts THEN {}
          ELSE { Site(IF IsBody(s.k) THEN "body_count" ELSE "surface_count", s.k, ToString(n), i, 0) :
                 n \in { m \in {s.np - 1, s.np + 1} : m >= 1 /\ m \notin CardCounts[s.k] } }
        : i \in UsedSurfs(d) }
(* an unknown mnemonic *)
MnemonicSites(d) == { Site("mnemonic", "surface", v, i, 0) : i \in UsedSurfs(d), v \in {"qx", "boxx"} }
                    \cup { Site("mnemonic", "surface", "suffix", i, 0) : i \in { j \in UsedSurfs(d) : Len(d.surfs[j].k) = 3 } }
(* a facet index beyond the body's facets (macrobodies only: the property speaks of bodies; the converter *)
(* accepts a facet suffix on an ordinary surface that it writes as two TRIPOLI-4 surfaces)               *)
FacetSites(d) ==
  UNION { UNION { LET n == Abs(d.cells[i].leaves[j][1])  si == SurfIndex(d, n) IN
                  IF si = 0 THEN {}
                  ELSE LET k == d.surfs[si].k IN
                       IF k \in DOMAIN BodyFacets
                       THEN { Site("facet", k, ToString(BodyFacets[k] + e), i, j) : e \in {1, 2} }
                       ELSE {}
                : j \in 1..Len(d.cells[i].leaves) }
        : i \in Live(d) }
(* a transformation with m = -1: on a TR card that is used, inline on a FILL, inline on a TRCL *)
UsedTrs(d) == { i \in 1..Len(d.trs) :
                  \/ \E s \in UsedSurfs(d) : d.surfs[s].tr = d.trs[i].n
                  \/ \E c \in Live(d) : d.cells[c].trcl = 1 /\ d.cells[c].trclnum = d.trs[i].n }
TrSites(d) ==
       { Site("tr_m", "trcard", "-1", i, 0) : i \in UsedTrs(d) }
  \cup { Site("tr_m", "fill_inline", "-1", c, 0) :
         c \in { x \in Live(d) : d.cells[x].ftr # 0 /\ (d.cells[x].fill # 0 \/ (d.cells[x].lat # 0 /\ ~d.cells[x].latopt)) } }
  \cup { Site("tr_m", "trcl_inline", "-1", c, 0) : c \in { x \in Live(d) : d.cells[x].trcl = 2 } }
(* lattices: the --lattice option (FILL=n lattices), the FILL array (declared ranges).                    *)
(* Ranges have the right dimensionality for a lattice with nv directions iff there are nv of them, or more *)
(* than nv of which exactly nv are non-trivial (a:b with a # b); the converter documents this reading in   *)
(* develop_lattice ("expected n non-trivial bounds").                                                      *)
NonTrivial(rs) == Cardinality({ i \in 1..Len(rs) : rs[i][1] # rs[i][2] })
RangesAdmissible(nv, rs) == Len(rs) = nv \/ (Len(rs) > nv /\ NonTrivial(rs) = nv)
RECURSIVE Widen(_, _)
Widen(nv, rs) == IF ~RangesAdmissible(nv, rs) /\ Len(rs) > nv THEN rs ELSE Widen(nv, Append(rs, <<0, 1>>))
TooFew(nv, rs) == SubSeq(rs, 1, nv - 1)
LatticeSites(d) ==
  UNION { IF d.cells[c].lat = 0 THEN {}
          ELSE IF d.cells[c].latopt
          THEN { Site("lattice_option", "lat", v, c, 0) : v \in {"absent", "other_cell"} }
               \cup { SiteArg("lattice_option", "lat", "too_many_ranges", c, Widen(d.cells[c].nvecs, d.cells[c].ranges)) }
               \cup (IF d.cells[c].nvecs >= 2
                     THEN { SiteArg("lattice_option", "lat", "too_few_ranges", c, TooFew(d.cells[c].nvecs, d.cells[c].ranges)) }
                     ELSE {})
               \cup { Site("lattice_argument", "cli", v, c, 0) :
                      v \in {"no_ranges", "four_ranges", "cell_not_int", "bound_not_int", "double_colon", "empty_range",
                             (* the option may be repeated: a malformed argument is malformed wherever it stands *)
                             "bound_not_int_then_good", "double_colon_then_good", "four_ranges_then_good"} }
          ELSE IF d.cells[c].nranges > 0
          THEN { Site("fill_length", "lat", v, c, 0) : v \in {"one_less", "one_more", "one_more_repeat", "one_more_nrepeat"} }
               \cup (IF Len(d.cells[c].lunivs) >= 2       \* a trailing repeat that runs one entry past the declared size
                     THEN { Site("fill_length", "lat", v, c, 0) : v \in {"overshoot_repeat", "overshoot_nrepeat"} }
                     ELSE {})
          ELSE {}
        : c \in LiveL(d) }
(* IMP cards of unequal length *)
ImpSites(d) ==
  (IF Len(d.impcards) >= 2 THEN { Site("imp_length", "data", v, 2, 0) : v \in {"second_shorter", "second_longer"} } ELSE {})
  \cup (IF Len(d.impcards) >= 1 /\ d.impcards[1] >= 2 THEN { Site("imp_length", "data", "shorter_than_cells", 1, 0) } ELSE {})
(* mixed-sign material fractions *)
MatSites(d) == UNION { IF d.mats[i].nfrac >= 2 THEN { Site("mixed_sign", "material", v, i, 0) : v \in {"first", "last"} } ELSE {}
                     : i \in 1..Len(d.mats) }

Sites(d) == CountSites(d) \cup MnemonicSites(d) \cup FacetSites(d) \cup TrSites(d) \cup LatticeSites(d)
            \cup ImpSites(d) \cup MatSites(d)
Expected(f) == "error"

BlockSites(b) ==
  LET ds == BlockDecks(b)
  IN [block |-> b, n |-> Len(ds),
      sites |-> { [tid |-> ds[i].tid, faults |-> Sites(ds[i].deck), nlive |-> Cardinality(Live(ds[i].deck))] : i \in 1..Len(ds) }]
VARIABLE blk
Init == blk = 0
Pick == blk = 0 /\ \E b \in 1..NB : blk' = -b
Check == blk < 0 /\ PrintT(ToJson(BlockSites(-blk))) /\ blk' = -blk
Next == Pick \/ Check
=============================================================================
