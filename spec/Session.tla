------------------------------ MODULE Session ------------------------------
(***************************************************************************)
(* C18: the converter as a sequential object.  A history is a sequence of  *)
(* Convert(deck, options) calls made in ONE interpreter; the specification *)
(* has no hidden state: the output of a call is Pure[deck, options], the   *)
(* output of the same call in a fresh process.  TLC enumerates every       *)
(* history up to MaxLen over the pools; TraceSession.tla compares the      *)
(* recorded outputs of each replayed history with the table Pure, which    *)
(* the harness obtains in fresh processes under several hash seeds.        *)
(***************************************************************************)
EXTENDS Integers, Sequences, FiniteSets, TLC, Json
CONSTANTS NDecks, NOpts, MaxLen
VARIABLE hist
Init == hist = <<>>
Convert(d, o) == Len(hist) < MaxLen /\ hist' = Append(hist, <<d, o>>)
Emit == Len(hist) >= 1 /\ PrintT(ToJson([hist |-> hist])) /\ UNCHANGED hist
Next == (\E d \in 1..NDecks, o \in 1..NOpts : Convert(d, o)) \/ Emit
(* a history is interesting when a call is repeated with something else in between *)
=============================================================================
