------------------------------ MODULE McnpSurf ------------------------------
(***************************************************************************)
(* Sense of every MCNP surface card and macrobody (DESIGN.md section 4,    *)
(* conventions 1 and 2), in exact integer arithmetic.                      *)
(*                                                                         *)
(* A card is a record [k |-> mnemonic, p |-> <<integers>>, d |-> den]:     *)
(* the real parameters are p[i]/d (d = 1 almost everywhere).  One-sheet    *)
(* cones carry the selector as their last parameter, as on the card.       *)
(* Points are doubled (Geom.tla).  Anchors: MIP/geom/forcad.py,            *)
(* ConversionSurfaceMCNPToT4.py, VectUtils.planeParamsFromPoints,          *)
(* MacroBodies.py.                                                         *)
(***************************************************************************)
EXTENDS Geom

Plane(a, b, c, dd) == <<0,0,0,0,0,0, a, b, c, -dd>>
(* sum_i w_i (d x_i - c_i)^2 + k : axis-aligned quadric centred at c/d *)
Centred(w, c, d, k) ==
  << w[1]*d*d, w[2]*d*d, w[3]*d*d, 0, 0, 0,
     -2*w[1]*d*c[1], -2*w[2]*d*c[2], -2*w[3]*d*c[3],
     w[1]*c[1]*c[1] + w[2]*c[2]*c[2] + w[3]*c[3]*c[3] + k >>
Sph(c, r, d) == Centred(<<1,1,1>>, c, d, -r*r)
CylQ(ax, c, r, d) == Centred([i \in 1..3 |-> IF i = ax THEN 0 ELSE 1], c, d, -r*r)
(* cone about axis ax, apex c/d, t^2 = t2/d *)
ConeQ(ax, c, t2, d) == Centred([i \in 1..3 |-> IF i = ax THEN -t2 ELSE d], c, d, 0)

(* three-point plane with MCNP's orientation rule *)
P3(p) ==
  LET a == V3(p,1)  b == V3(p,4)  c == V3(p,7)
      n == Cross(Sub(a,b), Sub(a,c))
      dd == Dot(n, a)
      flip == IF dd # 0 THEN dd < 0
              ELSE IF n[3] # 0 THEN n[3] < 0
              ELSE IF n[2] # 0 THEN n[2] < 0
              ELSE n[1] < 0
  IN IF flip THEN Plane(-n[1], -n[2], -n[3], -dd) ELSE Plane(n[1], n[2], n[3], dd)

(* point-defined axisymmetric surfaces X/Y/Z: kind of surface they denote *)
PtKind(p) == IF Len(p) = 2 THEN "plane"
             ELSE IF p[1] = p[3] THEN "plane"
             ELSE IF p[2] = p[4] THEN "cyl" ELSE "cone"
AxisOfK(k) == CASE k \in {"px","cx","c/x","kx","k/x","tx","x","sx"} -> 1
                [] k \in {"py","cy","c/y","ky","k/y","ty","y","sy"} -> 2
                [] OTHER -> 3
UnitV(ax, v) == [i \in 1..3 |-> IF i = ax THEN v ELSE 0]

(* polynomial of the card, up to a POSITIVE factor *)
CardQ(c) ==
  LET p == c.p  d == c.d  k == c.k  ax == AxisOfK(k) IN
  CASE k \in {"px","py","pz"} -> Plane(UnitV(ax,d)[1], UnitV(ax,d)[2], UnitV(ax,d)[3], p[1])
    [] k = "p" /\ Len(p) = 4 -> Plane(p[1], p[2], p[3], p[4])
    [] k = "p" /\ Len(p) = 9 -> P3(p)
    [] k = "so" -> Sph(<<0,0,0>>, p[1], d)
    [] k = "s"  -> Sph(<<p[1],p[2],p[3]>>, p[4], d)
    [] k \in {"sx","sy","sz"} -> Sph(UnitV(ax, p[1]), p[2], d)
    [] k \in {"cx","cy","cz"} -> CylQ(ax, <<0,0,0>>, p[1], d)
    [] k = "c/x" -> CylQ(1, <<0,p[1],p[2]>>, p[3], d)
    [] k = "c/y" -> CylQ(2, <<p[1],0,p[2]>>, p[3], d)
    [] k = "c/z" -> CylQ(3, <<p[1],p[2],0>>, p[3], d)
    [] k \in {"kx","ky","kz"} -> ConeQ(ax, UnitV(ax, p[1]), p[2], d)
    [] k \in {"k/x","k/y","k/z"} -> ConeQ(ax, <<p[1],p[2],p[3]>>, p[4], d)
    [] k = "gq" -> p
    [] k = "sq" -> (* sum A_i(x-c_i)^2 + 2 D_i (x-c_i) + G, all parameters /d: times d^3 *)
         LET cc == <<p[8],p[9],p[10]>>  aa == <<p[1],p[2],p[3]>>  dd == <<p[4],p[5],p[6]>>
         IN << aa[1]*d*d, aa[2]*d*d, aa[3]*d*d, 0, 0, 0,
               -2*aa[1]*d*cc[1] + 2*dd[1]*d*d, -2*aa[2]*d*cc[2] + 2*dd[2]*d*d, -2*aa[3]*d*cc[3] + 2*dd[3]*d*d,
               aa[1]*cc[1]*cc[1] + aa[2]*cc[2]*cc[2] + aa[3]*cc[3]*cc[3]
                 - 2*d*(dd[1]*cc[1] + dd[2]*cc[2] + dd[3]*cc[3]) + p[7]*d*d >>
    [] k \in {"x","y","z"} /\ PtKind(p) = "plane" -> Plane(UnitV(ax,d)[1], UnitV(ax,d)[2], UnitV(ax,d)[3], p[1])
    [] k \in {"x","y","z"} /\ PtKind(p) = "cyl" -> CylQ(ax, <<0,0,0>>, p[2], d)
    [] k \in {"x","y","z"} /\ PtKind(p) = "cone" ->
         (* apex a0 = (r1 x2 - r2 x1)/(r1 - r2) on the axis; t = (r1-r2)/(x1-x2)          *)
         (* (dr)^2 * rho^2 - (dr)^2 t^2 (x - a0)^2 with everything cleared of denominators *)
         LET dr == p[2] - p[4]  dx == p[1] - p[3]  num == p[2]*p[3] - p[4]*p[1]
             (* real apex = num/(dr*d); use denominator D = dr*d for the centre *)
             D == dr*d
         IN Centred([i \in 1..3 |-> IF i = ax THEN -dr*dr ELSE dx*dx], UnitV(ax, num), D, 0)

IsOneSheet(c) == \/ c.k \in {"kx","ky","kz"} /\ Len(c.p) = 3 /\ c.p[3] # 0
                 \/ c.k \in {"k/x","k/y","k/z"} /\ Len(c.p) = 5 /\ c.p[5] # 0
                 \/ c.k \in {"x","y","z"} /\ PtKind(c.p) = "cone"
IsTorus(c) == c.k \in {"tx","ty","tz"}
IsPolynomial(c) == ~IsTorus(c) /\ ~IsOneSheet(c)

(* which nappe a one-sheet cone keeps (+1: towards +axis) and the doubled, *)
(* denominator-cleared apex coordinate test  side(P) = sign(x - apex)      *)
ConeSheet(c) ==
  IF c.k \in {"kx","ky","kz"} THEN Sgn(c.p[3])
  ELSE IF c.k \in {"k/x","k/y","k/z"} THEN Sgn(c.p[5])
  ELSE (* point-defined: the nappe that contains the defining points *)
       LET p == c.p  dr == p[2] - p[4]  num == p[2]*p[3] - p[4]*p[1]
           (* x1 - a0 = (x1*dr - num)/dr ; if zero use x2 *)
           s1 == Sgn(p[1]*dr - num) * Sgn(dr)
           s2 == Sgn(p[3]*dr - num) * Sgn(dr)
       IN IF s1 # 0 THEN s1 ELSE s2
ConeSide(c, P) ==
  LET ax == AxisOfK(c.k) IN
  IF c.k \in {"kx","ky","kz"} THEN Sgn(c.d*P[ax] - 2*c.p[1])
  ELSE IF c.k \in {"k/x","k/y","k/z"} THEN Sgn(c.d*P[ax] - 2*c.p[ax])
  ELSE LET p == c.p  dr == p[2] - p[4]  num == p[2]*p[3] - p[4]*p[1]
       IN Sgn(c.d*dr*P[ax] - 2*num) * Sgn(dr)

(* torus  (rho - A)^2/C^2 + (z - zbar)^2/B^2 - 1, all parameters /d *)
TorusSense(c, P) ==
  LET ax == AxisOfK(c.k)  p == c.p  d == c.d
      q == << d*P[1] - 2*p[1], d*P[2] - 2*p[2], d*P[3] - 2*p[3] >>       \* 2d (x - centre)
      z2 == q[ax]
      r2 == Dot(q, q) - z2*z2                                            \* (2d rho)^2
      A == p[4]  B == p[5]  C == p[6]
      a == (r2 + 4*A*A)*B*B + z2*z2*C*C - 4*B*B*C*C
      b == -4*A*B*B
  IN SgnSqrt(a, b, r2)

(* reference sense of a card at doubled point P: +1, -1, or 0 on the surface *)
RefSense(c, P) ==
  IF IsTorus(c) THEN TorusSense(c, P)
  ELSE LET s == Sgn(Q4(CardQ(c), P)) IN
       IF ~IsOneSheet(c) THEN s
       ELSE LET side == ConeSide(c, P) IN
            IF s = 0 \/ side = 0 THEN 0
            ELSE IF s < 0 /\ side = ConeSheet(c) THEN -1 ELSE 1

(***************************************************************************)
(* Macrobodies.  Facets(b, P) lists one integer per facet in the manual's  *)
(* facet order; its sign is the sense of P with respect to that facet      *)
(* (positive = outside across the facet).  Interior = all negative.        *)
(* All body parameters are integers (d = 1).                               *)
(***************************************************************************)
Q2(P, v) == << P[1] - 2*v[1], P[2] - 2*v[2], P[3] - 2*v[3] >>      \* 2 (p - v)

(* regular hexagon (9-entry RHP/HEX): s, t = r turned by +60, +120 degrees about h; *)
(* value of facet "end of r turned by ang" = 2|h| (q.s - 2|s|^2)  with q = 2(p-v)   *)
HexFacet(q, r, h, hlen, plus, c2, s2) ==
  (* s = (c2/2) r + (s2 sqrt3/2) (h x r)/|h| ; c2, s2 in {-1, 1}; plus = +1 for the end, -1 opposite *)
  LET w == Cross(h, r)
      a == plus*c2*Dot(q, r)*hlen - 4*Dot(r, r)*hlen
      b == plus*s2*Dot(q, w)
  IN SgnSqrt(a, b, 3)

ArbFacetIdx(n) ==   \* digits of a facet number such as 1234 (0 digits dropped)
  LET ds == << n \div 1000, (n \div 100) % 10, (n \div 10) % 10, n % 10 >>
  IN SelectSeq(ds, LAMBDA x : x # 0)

Facets(b, P) ==
  LET p == b.p IN
  CASE b.k = "rpp" -> << P[1] - 2*p[2], 2*p[1] - P[1], P[2] - 2*p[4], 2*p[3] - P[2],
                         P[3] - 2*p[6], 2*p[5] - P[3] >>
    [] b.k = "box" ->
         LET q == Q2(P, V3(p,1))  a1 == V3(p,4)  a2 == V3(p,7)  a3 == V3(p,10)
         IN << Dot(q,a1) - 2*Dot(a1,a1), -Dot(q,a1), Dot(q,a2) - 2*Dot(a2,a2), -Dot(q,a2),
               Dot(q,a3) - 2*Dot(a3,a3), -Dot(q,a3) >>
    [] b.k = "sph" -> LET q == Q2(P, V3(p,1)) IN << Dot(q,q) - 4*p[4]*p[4] >>
    [] b.k = "rcc" ->
         LET q == Q2(P, V3(p,1))  h == V3(p,4)  r == p[7]  c == Cross(q, h)
         IN << Dot(c,c) - 4*r*r*Dot(h,h), Dot(q,h) - 2*Dot(h,h), -Dot(q,h) >>
    [] b.k \in {"rhp","hex"} /\ Len(p) = 15 ->
         LET q == Q2(P, V3(p,1))  h == V3(p,4)  r == V3(p,7)  s == V3(p,10)  t == V3(p,13)
         IN << Dot(q,r) - 2*Dot(r,r), -Dot(q,r) - 2*Dot(r,r), Dot(q,s) - 2*Dot(s,s), -Dot(q,s) - 2*Dot(s,s),
               Dot(q,t) - 2*Dot(t,t), -Dot(q,t) - 2*Dot(t,t), Dot(q,h) - 2*Dot(h,h), -Dot(q,h) >>
    [] b.k \in {"rhp","hex"} /\ Len(p) = 9 ->
         (* b.hlen = |h| must be an integer (generators only use such h) *)
         LET q == Q2(P, V3(p,1))  h == V3(p,4)  r == V3(p,7)  hl == b.hlen
         IN << Dot(q,r) - 2*Dot(r,r), -Dot(q,r) - 2*Dot(r,r),
               HexFacet(q, r, h, hl, 1, 1, 1), HexFacet(q, r, h, hl, -1, 1, 1),
               HexFacet(q, r, h, hl, 1, -1, 1), HexFacet(q, r, h, hl, -1, -1, 1),
               Dot(q,h) - 2*Dot(h,h), -Dot(q,h) >>
    [] b.k = "rec" /\ Len(p) = 12 ->
         LET q == Q2(P, V3(p,1))  h == V3(p,4)  a == V3(p,7)  bb == V3(p,10)
             aa == Dot(a,a)  b2 == Dot(bb,bb)
         IN << Dot(q,a)*Dot(q,a)*b2*b2 + Dot(q,bb)*Dot(q,bb)*aa*aa - 4*aa*aa*b2*b2,
               Dot(q,h) - 2*Dot(h,h), -Dot(q,h) >>
    [] b.k = "rec" /\ Len(p) = 10 ->
         (* minor axis = p[10] along h x a ; (q.a)^2/|a|^4 + (q.w)^2/(|w|^2 m^2) <= 4 *)
         LET q == Q2(P, V3(p,1))  h == V3(p,4)  a == V3(p,7)  m == p[10]
             w == Cross(h, a)  aa == Dot(a,a)  ww == Dot(w,w)
         IN << Dot(q,a)*Dot(q,a)*ww*m*m + Dot(q,w)*Dot(q,w)*aa*aa - 4*aa*aa*ww*m*m,
               Dot(q,h) - 2*Dot(h,h), -Dot(q,h) >>
    [] b.k = "trc" ->
         LET q == Q2(P, V3(p,1))  h == V3(p,4)  r0 == p[7]  r1 == p[8]  c == Cross(q, h)  hh == Dot(h,h)
             rad == 2*r0*hh + (r1 - r0)*Dot(q,h)         \* 2 hh * radius at the height of P
         (* facet 1 alone is the whole (two-sheet) conical surface, as for a K card without selector *)
         IN << Dot(c,c)*hh - rad*rad, Dot(q,h) - 2*hh, -Dot(q,h) >>
    [] b.k = "ell" /\ p[7] < 0 ->
         (* centre, major semi-axis vector a, minor radius r = -p[7] *)
         LET q == Q2(P, V3(p,1))  a == V3(p,4)  r == -p[7]  aa == Dot(a,a)  qa == Dot(q,a)
         IN << qa*qa*r*r + (Dot(q,q)*aa - qa*qa)*aa - 4*aa*aa*r*r >>
    [] b.k = "ell" /\ p[7] > 0 ->
         (* converter's documented reading (MCNP-validated by its authors): centre = midpoint of *)
         (* the two given points f1, f2; major semi-axis L = p[7] along f1 - centre; minor semi- *)
         (* axis^2 = L^2 - (L - |f1 - centre|)^2.  b.flen = |f1 - f2| (integer by construction).  *)
         LET f1 == V3(p,1)  f2 == V3(p,4)  L == p[7]  e2 == b.flen               \* e2 = 2|f1-c|
             qq == << 2*P[1] - 2*(f1[1]+f2[1]), 2*P[2] - 2*(f1[2]+f2[2]), 2*P[3] - 2*(f1[3]+f2[3]) >>  \* 4(p-c)
             u == Sub(f1, f2)                             \* direction, |u| = e2
             m2x4 == 4*L*L - (2*L - e2)*(2*L - e2)        \* 4 * minor^2
             qu == Dot(qq, u)                             \* 4 (p-c).u
             par2 == qu*qu                                \* 16 (p-c)_par^2 |u|^2
             tot2 == Dot(qq, qq)                          \* 16 |p-c|^2
             uu == e2*e2
         IN (* par^2/L^2 + perp^2/minor^2 - 1 ; multiply by 16 uu L^2 m2x4 *)
            << par2*m2x4 + (tot2*uu - par2)*4*L*L - 16*uu*L*L*m2x4 >>
    [] b.k = "wed" ->
         LET q == Q2(P, V3(p,1))  a == V3(p,4)  bb == V3(p,7)  h == V3(p,10)
         IN << Dot(q,a)*Dot(bb,bb) + Dot(q,bb)*Dot(a,a) - 2*Dot(a,a)*Dot(bb,bb),
               -Dot(q,a), -Dot(q,bb), Dot(q,h) - 2*Dot(h,h), -Dot(q,h) >>
    [] b.k = "arb" ->
         (* 8 vertices, then up to 6 facet numbers; convex: outward = away from the centroid *)
         LET fs == SelectSeq(SubSeq(p, 25, 30), LAMBDA x : x # 0)
             used == UNION { {ArbFacetIdx(fs[i])[j] : j \in 1..Len(ArbFacetIdx(fs[i]))} : i \in 1..Len(fs) }
             nv == Cardinality(used)
             vert(i) == V3(p, 3*i - 2)
             csum == << (LET RECURSIVE S(_) S(i) == IF i = 0 THEN 0 ELSE vert(i)[1] + S(i-1) IN S(nv)),
                        (LET RECURSIVE S(_) S(i) == IF i = 0 THEN 0 ELSE vert(i)[2] + S(i-1) IN S(nv)),
                        (LET RECURSIVE S(_) S(i) == IF i = 0 THEN 0 ELSE vert(i)[3] + S(i-1) IN S(nv)) >>
             fval(i) == LET ix == ArbFacetIdx(fs[i])
                            v1 == vert(ix[1])  v2 == vert(ix[2])  v3 == vert(ix[3])
                            n == Cross(Sub(v2, v1), Sub(v3, v1))
                            (* centroid side: n . (csum/nv - v1) *)
                            cs == Dot(n, csum) - nv*Dot(n, v1)
                            val == Dot(n, Q2(P, v1))
                        IN IF cs > 0 THEN -val ELSE val
         IN [i \in 1..Len(fs) |-> fval(i)]

NFacets(b) == Len(Facets(b, <<1,1,1>>))
InBody(b, P) == LET f == Facets(b, P) IN \A i \in 1..Len(f) : f[i] < 0
OnBody(b, P) == LET f == Facets(b, P) IN
                  (\E i \in 1..Len(f) : f[i] = 0) /\ (\A i \in 1..Len(f) : f[i] <= 0)
(* sense of the whole body: -1 inside, +1 outside, 0 on the boundary *)
BodySense(b, P) == IF InBody(b, P) THEN -1 ELSE IF OnBody(b, P) THEN 0 ELSE 1
FacetSense(b, k, P) == Sgn(Facets(b, P)[k])

IsBody(c) == c.k \in {"rpp","box","sph","rcc","rhp","hex","rec","trc","ell","wed","arb"}

(* sense of leaf (card c, facet k or 0) at P *)
LeafSense(c, k, P) ==
  IF IsBody(c) THEN (IF k = 0 THEN BodySense(c, P) ELSE FacetSense(c, k, P))
  ELSE RefSense(c, P)
=============================================================================
