----------------------------- MODULE PipelineD2 -----------------------------
(***************************************************************************)
(* DETERMINISTIC TRANSCRIPTION of FILL development and cell inlining       *)
(* (CellConversion.pot_fill, CellInlining.find_occurrences /               *)
(* compute_inlining_scores / inline_cells, convert_cellref) on top of the  *)
(* Boolean core of ConvCore.tla, for decks without transformations:        *)
(*    container 1 = gC filled with universe U = {11: f1, 12: f2},          *)
(*    cell 2 absent / plain / filled with U as well (reuse: the universe   *)
(*    then occurs twice, which is what the inlining score looks at)        *)
(* under EVERY option set: --always-inline-filled, --always-inline-filling *)
(* and a threshold --max-inline-score taken around the scores that occur.  *)
(*    choose -> fill -> inline -> convert -> dedup -> prune -> unused      *)
(* Points are all sense assignments (duplicate classes and auxiliary       *)
(* planes as in PipelineD).  The design check is C13 at design level: for  *)
(* every deck and every option set the volume of each (filler, container)  *)
(* pair denotes  container AND filler,  and C08's Wellformed holds.        *)
(***************************************************************************)
EXTENDS ConvCore

S(n) == <<"S", n>>
ContTrees == { S(-1), <<"*", S(-1), S(2)>>, <<":", S(-1), S(-2)>> }
Cell2Trees == { S(1), <<"*", S(1), S(-3)>> }
(* S(-1): a filler that repeats the container's own surface with the same sense *)
FillTrees == { S(-3), S(3), S(1), S(-1), <<"*", S(3), S(-2)>>, <<":", S(-3), S(2)>>, <<"*", S(-3), <<":", S(1), S(2)>>>> }
(* thresholds as twice the score (scores are sizes / occurrences): score < max  <=>  2*size < max2*occ *)
Max2s == {0, 1, 2, 3, 4, 200}

VARIABLES pc, cells, order, opts, next, vols, expect
vars == <<pc, cells, order, opts, next, vols, expect>>
(* cells: key -> [geom, u, fill, conv]   order: keys in dictionary (insertion) order *)
(* expect: key -> tree whose meaning the volume of that key must have                *)

Cell(g, u, fill) == [geom |-> g, u |-> u, fill |-> fill]
Init == pc = "choose" /\ cells = << >> /\ order = <<>> /\ opts = [filled |-> FALSE, filling |-> FALSE, max2 |-> 2]
        /\ next = 0 /\ vols = << >> /\ expect = << >>

Choose ==
  /\ pc = "choose"
  /\ \E gc \in ContTrees, f1 \in FillTrees, f2 \in FillTrees, mode \in {"none", "plain", "reuse"}, g2 \in Cell2Trees,
        fd \in BOOLEAN, fg \in BOOLEAN, m2 \in Max2s :
       /\ f1 # f2
       /\ LET base == (1 :> Cell(gc, 0, 1)) @@ (11 :> Cell(f1, 1, 0)) @@ (12 :> Cell(f2, 1, 0))
              withc2 == IF mode = "none" THEN base
                        ELSE base @@ (2 :> Cell(g2, 0, IF mode = "reuse" THEN 1 ELSE 0))
          IN /\ cells' = withc2
             /\ order' = IF mode = "none" THEN <<1, 11, 12>> ELSE <<1, 2, 11, 12>>
       /\ opts' = [filled |-> fd, filling |-> fg, max2 |-> m2]
  /\ next' = 13          \* free_key = largest cell number + 1
  /\ pc' = "fill" /\ UNCHANGED <<vols, expect>>

(* pot_fill for every level-0 cell that has a FILL, in dictionary order *)
Universe(u) == SelectSeq(order, LAMBDA k : cells[k].u = u)
RECURSIVE FillOne(_, _, _, _, _, _)
FillOne(key, elems, i, cs, ord, nx) ==
  IF i > Len(elems) THEN [cells |-> cs, order |-> ord, next |-> nx]
  ELSE LET e == elems[i]
           left == IF opts.filled THEN cs[key].geom ELSE <<"R", key>>
           right == IF opts.filling THEN cs[e].geom ELSE <<"R", e>>
           nk == nx + 1
       IN FillOne(key, elems, i + 1, cs @@ (nk :> [geom |-> <<"*", left, right>>, u |-> 0, fill |-> 0, origin |-> <<e, key>>]),
                  Append(ord, nk), nk)
RECURSIVE FillAll(_, _, _, _, _)
FillAll(keys, i, cs, ord, nx) ==
  IF i > Len(keys) THEN [cells |-> cs, order |-> ord, next |-> nx]
  ELSE LET r == FillOne(keys[i], Universe(cs[keys[i]].fill), 1, cs, ord, nx)
       IN FillAll(keys, i + 1, r.cells, r.order, r.next)
Fill ==
  /\ pc = "fill"
  /\ LET fk == SelectSeq(order, LAMBDA k : cells[k].fill # 0 /\ cells[k].u = 0)
         withOrigin == [k \in DOMAIN cells |-> [geom |-> cells[k].geom, u |-> cells[k].u, fill |-> cells[k].fill, origin |-> <<>>]]
         r == FillAll(fk, 1, withOrigin, order, next)
     IN /\ cells' = r.cells /\ order' = r.order /\ next' = r.next
        (* what every convertible cell must mean: container AND filler, or the cell's own expression *)
        /\ expect' = [k \in { x \in DOMAIN r.cells : r.cells[x].u = 0 /\ r.cells[x].fill = 0 } |->
                        IF r.cells[k].origin = <<>> THEN cells[k].geom
                        ELSE <<"*", cells[r.cells[k].origin[2]].geom, cells[r.cells[k].origin[1]].geom>>]
  /\ pc' = "inline" /\ UNCHANGED <<opts, vols>>

(* inline_cells *)
RECURSIVE Subcells(_)
Subcells(t) == IF IsLeaf(t) THEN <<>> ELSE IF IsRef(t) THEN <<t[2]>> ELSE Concat([i \in 1..(Len(t) - 1) |-> Subcells(t[i + 1])], 1)
RECURSIVE SizeT(_)
SizeT(t) == IF IsAtom(t) THEN 1
            ELSE LET RECURSIVE Sum(_) Sum(i) == IF i = 1 THEN 0 ELSE SizeT(t[i]) + Sum(i - 1) IN Sum(Len(t))
Count(seq, x) == Cardinality({ i \in 1..Len(seq) : seq[i] = x })
RECURSIVE InlineT(_, _, _)
InlineT(t, cs, toInline) ==
  IF IsLeaf(t) THEN t
  ELSE IF IsRef(t) THEN (IF t[2] \in toInline THEN InlineT(cs[t[2]].geom, cs, toInline) ELSE t)
  ELSE <<t[1]>> \o [i \in 1..(Len(t) - 1) |-> InlineT(t[i + 1], cs, toInline)]
Inline ==
  /\ pc = "inline"
  /\ LET roots == SelectSeq(order, LAMBDA k : cells[k].u = 0)
         (* all references found from the level-0 cells (referenced cells here refer to nothing further) *)
         occ == Concat([i \in 1..Len(roots) |-> Subcells(cells[roots[i]].geom)], 1)
         refd == { occ[i] : i \in 1..Len(occ) }
         inl == { k \in refd : IF Count(occ, k) <= 1 THEN 0 < opts.max2
                               ELSE 2 * SizeT(cells[k].geom) < opts.max2 * Count(occ, k) }
     IN cells' = IF refd = {} \/ inl = {} THEN cells
                 ELSE [k \in DOMAIN cells |-> [cells[k] EXCEPT !.geom = InlineT(@, cells, inl)]]
  /\ pc' = "convert" /\ UNCHANGED <<order, opts, next, vols, expect>>

(* the convert loop of construct_volume_t4 *)
RECURSIVE ConvAll(_, _, _)
ConvAll(keys, i, st) ==
  IF i > Len(keys) THEN st
  ELSE LET r == PotConvert(st.cells[keys[i]], st)
       IN ConvAll(keys, i + 1,
                  IF r.id = 0 THEN r.st
                  ELSE [r.st EXCEPT !.vols = Put(@, keys[i], [r.st.vols[r.id] EXCEPT !.fict = FALSE])])
Convert ==
  /\ pc = "convert"
  /\ LET ck == SelectSeq(order, LAMBDA k : cells[k].u = 0 /\ cells[k].fill = 0)
         geoms == [k \in DOMAIN cells |-> cells[k].geom]
         st == ConvAll(ck, 1, EmptyState(next, geoms))
     IN vols' = st.vols /\ next' = st.next
  /\ pc' = "dedup" /\ UNCHANGED <<cells, order, opts, expect>>
Dedup == pc = "dedup" /\ vols' = DedupVols(vols) /\ pc' = "prune" /\ UNCHANGED <<cells, order, opts, next, expect>>
Prune == pc = "prune" /\ vols' = PruneVols(vols) /\ pc' = "unused" /\ UNCHANGED <<cells, order, opts, next, expect>>
Unused == pc = "unused" /\ vols' = UnusedVols(vols) /\ pc' = "final" /\ UNCHANGED <<cells, order, opts, next, expect>>
VolJson(id) == [id |-> id, plus |-> vols[id].plus, minus |-> vols[id].minus, op |-> vols[id].op,
                args |-> vols[id].args, fict |-> vols[id].fict]
Emit == /\ pc = "final"
        /\ PrintT(ToJson([deck |-> { [key |-> k, geom |-> cells[k].geom, u |-> cells[k].u, fill |-> cells[k].fill] :
                                        k \in { x \in DOMAIN cells : x < 13 } },
                          opts |-> opts,
                          conv |-> { [key |-> k, origin |-> cells[k].origin] : k \in DOMAIN expect },
                          vols |-> { VolJson(id) : id \in DOMAIN vols }]))
        /\ pc' = "done" /\ UNCHANGED <<cells, order, opts, next, vols, expect>>
Next == Choose \/ Fill \/ Inline \/ Convert \/ Dedup \/ Prune \/ Unused \/ Emit
Spec == Init /\ [][Next]_vars

(***************************************************************************)
(* properties (for EVERY option set: C13 at design level)                  *)
(***************************************************************************)
AfterConvert == pc \in {"dedup", "prune", "unused", "final", "done"}
MeaningPreserved ==
  AfterConvert =>
    \A k \in DOMAIN expect : \A a \in Assignments :
      EvalT(expect[k], a) = (k \in DOMAIN vols /\ InVolA(vols, k, a, 12))
Wellformed ==
  pc \in {"final", "done"} =>
    \A id \in DOMAIN vols : /\ ToSet(vols[id].args) \subseteq DOMAIN vols
                            /\ vols[id].plus \cap vols[id].minus = {}
                            /\ (vols[id].op # "NONE" => vols[id].args # <<>>)
(* inlining never changes what a cell means *)
InlineSound ==
  pc = "convert" =>
    \A k \in DOMAIN expect : \A a \in Assignments :
      EvalC([x \in DOMAIN cells |-> cells[x].geom], cells[k].geom, a, 6) = EvalT(expect[k], a)
=============================================================================
