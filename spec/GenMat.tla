------------------------------- MODULE GenMat -------------------------------
(***************************************************************************)
(* Generator of material cards for C10: 1-4 nuclides (repetition allowed)  *)
(* from Z in 1..118 x mass numbers {000, 001, typical, three digits},      *)
(* fractions of one sign (or mixed, to be rejected), library suffixes,     *)
(* keyword entries interleaved, cell densities of both signs.              *)
(***************************************************************************)
EXTENDS Material, Json

CONSTANT Lvl
Fracs == { <<1, 1>>, <<2, 1>>, <<1, 2>>, <<1, 4>>, <<3, 10>>, <<1, 5>> }
Rhos == { <<-27, 10>>, <<-1, 1>>, <<3, 50>>, <<1, 1>>, <<1, 10>> }
AOf(z) == { 0, 1, 2 * z, IF z > 40 THEN 2 * z + 50 ELSE 100 + z }
Zs == IF Lvl = 1 THEN {1, 2, 6, 8, 13, 26, 40, 82, 92, 94, 100, 118} ELSE 1..118
Suffixes == {"", ".70c", ".31c"}
VARIABLES pc, card, rho, sign, kw
Init == pc = "sign" /\ card = <<>> /\ rho = <<1, 1>> /\ sign = 1 /\ kw = 0
Sign == pc = "sign" /\ \E s \in {1, -1, 0}, r \in Rhos, k \in 0..2 : sign' = s /\ rho' = r /\ kw' = k
        /\ pc' = "add" /\ UNCHANGED card
Add == /\ pc = "add" /\ Len(card) < 4
       /\ \E z \in Zs : \E a \in AOf(z), f \in Fracs, sfx \in Suffixes, sg \in {1, -1} :
            /\ (sign # 0 => sg = sign)
            /\ card' = Append(card, [z |-> z, a |-> a, frac |-> <<sg * f[1], f[2]>>, sfx |-> sfx])
       /\ UNCHANGED <<pc, rho, sign, kw>>
Stop == pc = "add" /\ Len(card) >= 1 /\ pc' = "emit" /\ UNCHANGED <<card, rho, sign, kw>>
Emit == pc = "emit" /\ PrintT(ToJson([card |-> card, rho |-> rho, kw |-> kw]))
        /\ pc' = "done" /\ UNCHANGED <<card, rho, sign, kw>>
Next == Sign \/ Add \/ Stop \/ Emit
=============================================================================
