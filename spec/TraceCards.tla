----------------------------- MODULE TraceCards -----------------------------
(***************************************************************************)
(* C14: for every rewritten text explored by Cards.tla,                    *)
(*  - the card segmentation of the real reader (get_cards + Card.content)  *)
(*    equals the reference reader's (r.spelled, computed by Cards!Read-    *)
(*    Spelled when the text was generated), token by token;                *)
(*  - the conversion succeeds and its GEOMETRY / BOUNDARY_CONDITION blocks *)
(*    are byte-identical to the seed's, its COMPOSITION / GEOMCOMP blocks  *)
(*    identical by content.                                                *)
(***************************************************************************)
EXTENDS Integers, Sequences, FiniteSets, TLC, Json, IOUtils
BlockTraces(b) == JsonDeserialize(IOEnv.TRACE_DIR \o "/b" \o ToString(b) \o ".json")
NB == 64
Verdict(r) ==
  IF r.impl_error THEN "reader_crash"
  ELSE IF r.impl # r.spelled THEN "segmentation_differs"
  ELSE IF r.result # "ok" THEN "conversion_fails"
  ELSE IF r.geom # r.seed_geom THEN "geometry_differs"
  ELSE IF r.compo # r.seed_compo THEN "compositions_differ"
  ELSE "ok"
BlockVerdict(b) ==
  LET tr == BlockTraces(b)
      vd == TLCEval([i \in 1..Len(tr) |-> Verdict(tr[i])])
  IN [block |-> b, n |-> Len(tr), bad |-> { <<tr[i].tid, vd[i]>> : i \in { j \in 1..Len(tr) : vd[j] # "ok" } }]
VARIABLE blk
Init == blk = 0
Pick == blk = 0 /\ \E b \in 1..NB : blk' = -b
Check == blk < 0 /\ PrintT(ToJson(BlockVerdict(-blk))) /\ blk' = -blk
Next == Pick \/ Check
=============================================================================
