------------------------------ MODULE Material ------------------------------
(***************************************************************************)
(* Specification of the material-card -> composition mapping (C10):        *)
(* element symbol and mass number from the ZAID (library suffix and        *)
(* keyword entries ignored; mass number 000 = natural element "-NAT"),     *)
(* sign discipline (all entries positive = atom fractions, all negative =  *)
(* weight fractions, mixed = rejected), mass density -> DENSITY block with *)
(* the card's absolute values flagged NB_ATOM iff atom fractions, atom     *)
(* density -> POINT_WISE block with concentrations f_i * rho / sum(f).     *)
(* Rationals are pairs <<num, den>> with den > 0.                          *)
(* Anchors: Composition/*.py, WriteT4Composition.py, MIP/geom/composition. *)
(***************************************************************************)
EXTENDS Integers, Sequences, FiniteSets, TLC

Sym == << "H", "HE", "LI", "BE", "B", "C", "N", "O", "F", "NE", "NA", "MG", "AL", "SI", "P", "S", "CL", "AR",
          "K", "CA", "SC", "TI", "V", "CR", "MN", "FE", "CO", "NI", "CU", "ZN", "GA", "GE", "AS", "SE", "BR", "KR",
          "RB", "SR", "Y", "ZR", "NB", "MO", "TC", "RU", "RH", "PD", "AG", "CD", "IN", "SN", "SB", "TE", "I", "XE",
          "CS", "BA", "LA", "CE", "PR", "ND", "PM", "SM", "EU", "GD", "TB", "DY", "HO", "ER", "TM", "YB", "LU",
          "HF", "TA", "W", "RE", "OS", "IR", "PT", "AU", "HG", "TL", "PB", "BI", "PO", "AT", "RN", "FR", "RA", "AC",
          "TH", "PA", "U", "NP", "PU", "AM", "CM", "BK", "CF", "ES", "FM", "MD", "NO", "LR", "RF", "DB", "SG", "BH",
          "HS", "MT", "DS", "RG", "CN", "NH", "FL", "MC", "LV", "TS", "OG" >>
ASSUME Len(Sym) = 118

NuclideName(z, a) == Sym[z] \o (IF a = 0 THEN "-NAT" ELSE ToString(a))
(* rational arithmetic on <<num, den>> *)
RMul(x, y) == <<x[1] * y[1], x[2] * y[2]>>
RAdd(x, y) == <<x[1] * y[2] + y[1] * x[2], x[2] * y[2]>>
REq(x, y) == x[1] * y[2] = y[1] * x[2]
RAbs(x) == <<IF x[1] < 0 THEN -x[1] ELSE x[1], x[2]>>
RECURSIVE RSum(_, _)
RSum(fs, i) == IF i = 0 THEN <<0, 1>> ELSE RAdd(fs[i], RSum(fs, i - 1))

(* card: sequence of entries [z, a, frac] (frac = <<num, den>>, signed); rho = <<num, den>> signed *)
SignsOK(card) == (\A i \in 1..Len(card) : card[i].frac[1] > 0) \/ (\A i \in 1..Len(card) : card[i].frac[1] < 0)
AtomFractions(card) == \A i \in 1..Len(card) : card[i].frac[1] > 0
Expected(card, rho) ==
  IF ~SignsOK(card) THEN [outcome |-> "rejected"]
  ELSE IF rho[1] < 0
  THEN [outcome |-> "ok", type |-> "DENSITY", dens |-> RAbs(rho), nb_atom |-> AtomFractions(card),
        names |-> [i \in 1..Len(card) |-> NuclideName(card[i].z, card[i].a)],
        values |-> [i \in 1..Len(card) |-> RAbs(card[i].frac)]]
  ELSE IF ~AtomFractions(card) THEN [outcome |-> "unsupported"]
  ELSE LET tot == RSum([i \in 1..Len(card) |-> card[i].frac], Len(card))
       IN [outcome |-> "ok", type |-> "POINT_WISE", dens |-> rho, nb_atom |-> TRUE,
           names |-> [i \in 1..Len(card) |-> NuclideName(card[i].z, card[i].a)],
           (* f_i * rho / tot *)
           values |-> [i \in 1..Len(card) |-> <<card[i].frac[1] * rho[1] * tot[2], card[i].frac[2] * rho[2] * tot[1]>>]]
=============================================================================
