------------------------------ MODULE FaultTables ------------------------------
(***************************************************************************)
(* What MCNP admits (manual, chapter 3): the number of entries of every    *)
(* surface mnemonic and macrobody and the number of facets of every body.  *)
(* Shared by Faults.tla (one base deck per fault class) and FaultSites.tla *)
(* (every applicable card of generated decks).                             *)
(***************************************************************************)
EXTENDS Integers, Sequences, FiniteSets, TLC, Json

(* admissible numbers of entries; tx/ty/tz 5 = circular torus, a converter extension *)
SurfCounts == [ px |-> {1}, py |-> {1}, pz |-> {1}, p |-> {4, 9}, so |-> {1}, s |-> {4}, sx |-> {2}, sy |-> {2},
                sz |-> {2}, cx |-> {1}, cy |-> {1}, cz |-> {1}, kx |-> {2, 3}, ky |-> {2, 3}, kz |-> {2, 3},
                sq |-> {10}, gq |-> {10}, tx |-> {5, 6}, ty |-> {5, 6}, tz |-> {5, 6},
                x |-> {2, 4, 6}, y |-> {2, 4, 6}, z |-> {2, 4, 6} ]
SlashCounts == [ cx |-> {3}, cy |-> {3}, cz |-> {3}, kx |-> {4, 5}, ky |-> {4, 5}, kz |-> {4, 5} ]   \* c/x .. k/z
BodyCounts == [ box |-> {12}, rpp |-> {6}, sph |-> {4}, rcc |-> {7}, rhp |-> {9, 15}, hex |-> {9, 15},
                rec |-> {10, 12}, trc |-> {8}, ell |-> {7}, wed |-> {12}, arb |-> {30} ]
BodyFacets == [ box |-> 6, rpp |-> 6, sph |-> 1, rcc |-> 3, rhp |-> 8, hex |-> 8, rec |-> 3, trc |-> 3, ell |-> 1,
                wed |-> 5 ]
(* every number of entries next to an admissible one that is not itself admissible *)
OffCounts(S) == { n \in { m - 1 : m \in S } \cup { m + 1 : m \in S } : n \notin S /\ n >= 1 }
(* the same tables keyed by the mnemonic as written on the card *)
SlashName(k) == CASE k = "cx" -> "c/x" [] k = "cy" -> "c/y" [] k = "cz" -> "c/z"
                  [] k = "kx" -> "k/x" [] k = "ky" -> "k/y" [] k = "kz" -> "k/z"
CardCounts == [ k \in DOMAIN SurfCounts |-> SurfCounts[k] ]
              @@ [ k \in { SlashName(x) : x \in DOMAIN SlashCounts } |->
                     SlashCounts[CHOOSE x \in DOMAIN SlashCounts : SlashName(x) = k] ]
              @@ [ k \in DOMAIN BodyCounts |-> BodyCounts[k] ]
IsBody(k) == k \in DOMAIN BodyCounts
=============================================================================
