---------------------------- MODULE TraceSession ----------------------------
(***************************************************************************)
(* C18: every output recorded along a history equals the output of the     *)
(* same (deck, options) call in a fresh process (r.pure, identical under   *)
(* all sampled hash seeds: r.seeds_agree), and the input file is untouched.*)
(***************************************************************************)
EXTENDS Integers, Sequences, FiniteSets, TLC, Json, IOUtils
BlockTraces(b) == JsonDeserialize(IOEnv.TRACE_DIR \o "/b" \o ToString(b) \o ".json")
NB == 64
Verdict(r) ==
  IF \E i \in 1..Len(r.outs) : r.outs[i] # r.pure[i] THEN "history_dependent"
  ELSE IF ~r.inputs_untouched THEN "input_modified"
  ELSE IF ~r.clean THEN "files_left_behind"
  ELSE "ok"
FirstBad(r) == IF \E i \in 1..Len(r.outs) : r.outs[i] # r.pure[i]
               THEN CHOOSE i \in 1..Len(r.outs) : r.outs[i] # r.pure[i] /\ \A j \in 1..(i - 1) : r.outs[j] = r.pure[j]
               ELSE 0
Repeats(r) == \E i, j \in 1..Len(r.hist) : i + 1 < j /\ r.hist[i] = r.hist[j] /\ r.hist[i + 1] # r.hist[i]
BlockVerdict(b) ==
  LET tr == BlockTraces(b)
      vd == TLCEval([i \in 1..Len(tr) |-> Verdict(tr[i])])
  IN [block |-> b, n |-> Len(tr), nontrivial |-> Cardinality({ i \in 1..Len(tr) : Repeats(tr[i]) }),
      bad |-> { <<tr[i].tid, vd[i], FirstBad(tr[i])>> : i \in { j \in 1..Len(tr) : vd[j] # "ok" } }]
VARIABLE blk
Init == blk = 0
Pick == blk = 0 /\ \E b \in 1..NB : blk' = -b
Check == blk < 0 /\ PrintT(ToJson(BlockVerdict(-blk))) /\ blk' = -blk
Next == Pick \/ Check
=============================================================================
