------------------------------- MODULE GenTr -------------------------------
(***************************************************************************)
(* Generator for C04: (surface sample) x (the 24 proper signed-permutation *)
(* rotations - the hazardous class: axis-aligned stays axis-aligned, an    *)
(* axis may be mapped onto minus itself) x displacements x carrier (TR     *)
(* number on the surface card, TRCL by number / inline / starred, implicit *)
(* surface 1000*cell+surface with both or only negative sense) x spelling  *)
(* of the card (12, 13 with m=1, 3 entries, starred angles, two rows or    *)
(* two columns with J placeholders).                                       *)
(* Also the matrix-completion instances: rational rotations with 9, 6, 5   *)
(* and 3 supplied entries, and the predicate IsCompletion they must meet.  *)
(***************************************************************************)
EXTENDS McnpSurf, TLC, Json

CONSTANT Lvl

Card(k, p, d) == [n |-> 1, k |-> k, p |-> p, d |-> d, tr |-> 0, bc |-> "", hlen |-> 0, flen |-> 0]
Samples == { Card("px", <<1>>, 1), Card("p", <<1, 2, 0, 2>>, 1), Card("s", <<1, 0, -1, 2>>, 1),
             Card("c/z", <<1, 0, 1>>, 1), Card("cx", <<1>>, 1), Card("kz", <<1, 1>>, 1),
             Card("kz", <<1, 1, 1>>, 1), Card("k/x", <<1, 0, -1, 1, -1>>, 1), Card("ky", <<-1, 1, -1>>, 4),
             Card("tz", <<0, 1, 0, 3, 1, 1>>, 1), Card("tx", <<1, 0, 0, 4, 2, 1>>, 1),
             Card("sq", <<1, 2, 0, 0, 0, 0, -4, 1, 0, 0>>, 1), Card("gq", <<1, 0, 1, 1, 0, 0, 0, 2, 0, -3>>, 1),
             Card("gq", <<1, 2, 1, 1, 2, -1, 0, 2, 0, -6>>, 1),     \* three different cross terms (xy, yz, zx)
             Card("rpp", <<-1, 2, 0, 1, -1, 1>>, 1), Card("rcc", <<0, 0, -1, 0, 0, 3, 1>>, 1),
             Card("x", <<-1, 0, 1, 2>>, 1), Card("p", <<1, 0, 0, 1, 1, 0, 0, 0, 2>>, 1) }
SamplesL == IF Lvl = 1 THEN { c \in Samples : c.k \in {"p", "c/z", "kz", "k/x", "tz", "sq", "rpp", "rcc"} \/ (c.k = "gq" /\ c.p[5] # 0) } ELSE Samples
Disps == IF Lvl = 1 THEN { <<2, -1, 0>> } ELSE { <<0, 0, 0>>, <<2, -1, 0>>, <<0, 1, -2>> }
(* "implicitdense": the deck's largest explicit surface number lies just below the implicit number   *)
(* 1000*c+s and the cell c that carries the TRCL lists another surface first, so that surface keys    *)
(* allocated by the TRCL pass would collide with the implicit surface if the free key were taken too  *)
(* early                                                                                              *)
Carriers == {"surftr", "trclnum", "trclinline", "trclstar", "implicit", "implicitneg", "implicitdense"}
(* facet of the body the probe cells refer to (0 = the whole body / an ordinary surface) *)
FacetsOf(c) == IF c.k = "rpp" THEN {0, 1, 4, 5} ELSE IF c.k = "rcc" THEN {0, 1, 2} ELSE {0}
Spells == {"12", "13", "star", "rows12", "rows13", "rows23", "cols12", "cols13", "cols23", "3", "star3"}
IdM9 == <<1,0,0, 0,1,0, 0,0,1>>

VARIABLES pc, rec
Init == pc = "pick" /\ rec = <<>>
Pick == /\ pc = "pick"
        /\ \E c \in SamplesL, m \in Rotations24, o \in Disps, ca \in Carriers, sp \in Spells, fk \in {0, 1, 2, 4, 5} :
              /\ fk \in FacetsOf(c)
              /\ (ca \in {"trclinline", "trclstar"} => sp \in {"12", "13", "star", "3", "star3"})
              /\ (ca = "trclstar" <=> sp \in {"star", "star3"}) \/ ca \notin {"trclinline", "trclstar"}
              (* a displacement alone (three entries, with or without the star) is a pure translation *)
              /\ (sp \in {"3", "star3"} => m = IdM9)
              /\ rec' = [card |-> c, tr |-> [o |-> o, m |-> m], carrier |-> ca, spell |-> sp, facet |-> fk]
        /\ pc' = "emit"
Emit == pc = "emit" /\ PrintT(ToJson(rec)) /\ pc' = "done" /\ UNCHANGED rec
Next == Pick \/ Emit

(***************************************************************************)
(* Matrix completion (rational matrices M/den).                            *)
(***************************************************************************)
Row(M, i) == << M[3*i-2], M[3*i-1], M[3*i] >>
IsRotation(M, den) ==
  /\ \A i, j \in 1..3 : Dot(Row(M, i), Row(M, j)) = (IF i = j THEN den*den ELSE 0)
  /\ Det3(M) = den*den*den
(* given: 9-tuple of <<present, numerator>> with the same denominator den *)
IsCompletion(M, den, given) ==
  /\ IsRotation(M, den)
  /\ \A i \in 1..9 : given[i][1] = 1 => M[i] = given[i][2]
(* approximate variant for completions with irrational entries (3 supplied entries): M holds the *)
(* entries multiplied by S = 10000 and rounded, so every dot product is exact up to 3S            *)
AbsV(x) == IF x < 0 THEN -x ELSE x
IsRotationApprox(M, S) ==
  /\ \A i, j \in 1..3 : AbsV(Dot(Row(M, i), Row(M, j)) - (IF i = j THEN S*S ELSE 0)) <= 4*S
  /\ LET c == Cross(Row(M, 1), Row(M, 2)) IN \A k \in 1..3 : AbsV(S * Row(M, 3)[k] - c[k]) <= 4*S
IsCompletionApprox(M, S, given) ==
  /\ IsRotationApprox(M, S)
  /\ \A i \in 1..9 : given[i][1] = 1 => AbsV(M[i] - given[i][2]) <= 1
=============================================================================
