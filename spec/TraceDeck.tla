----------------------------- MODULE TraceDeck -----------------------------
(***************************************************************************)
(* Validation of recorded conversions of whole decks against the           *)
(* specification.  One trace = one execution of the real converter on a    *)
(* generated abstract deck: the deck, the options, the outcome, the        *)
(* written file (tokens + sense rows) and the stdout NOTE.                 *)
(*                                                                         *)
(* Clauses (each check selects the ones its property is about):            *)
(*   owner  - C01/C05/C06/C07: the T4 owners of every probe point are      *)
(*            exactly what McnpSem.Locate prescribes, with id/provenance   *)
(*   valid  - C08: T4Sem.FileValid                                         *)
(*   zeroimp- C12: NOTE list and absent volumes = zero-importance cells    *)
(* A failing clause yields a verdict naming it (verdicts are total).       *)
(***************************************************************************)
EXTENDS McnpSem, T4Sem, Json, IOUtils

(* the harness writes one file of traces per block so that blocks are read in parallel *)
BlockTraces(b) == JsonDeserialize(IOEnv.TRACE_DIR \o "/b" \o ToString(b) \o ".json")
NB == 64

(* expected provenance pairs of a chain <<f, c1, .., c0>> *)
ExpectedOrigin(ch) == [i \in 1..(Len(ch) - 1) |-> <<ch[1], ch[i + 1]>>]

(* provenance: pairs (innermost filler, container_i) from the inside out; a lattice element is a copy *)
(* of the lattice cell under a key invented by the converter (any number above the deck's cells)      *)
KeyMatches(D, x, e) == IF IsMark(e) THEN x > MaxCellN(D) ELSE x = e
OriginMatches(D, ch, origin) ==
  /\ Len(origin) = Len(ch) - 1
  /\ \A i \in 1..Len(origin) : KeyMatches(D, origin[i][1], ch[1]) /\ KeyMatches(D, origin[i][2], ch[i + 1])
(* invented keys met along the chain: set of <<marker, key>> *)
InventedKeys(ch, origin) ==
  IF Len(origin) # Len(ch) - 1 THEN {}
  ELSE { <<ch[i + 1], origin[i][2]>> : i \in { j \in 1..Len(origin) : IsMark(ch[j + 1]) } }
       \cup (IF IsMark(ch[1]) THEN { <<ch[1], origin[i][1]>> : i \in 1..Len(origin) } ELSE {})

(* per-trace analysis shared by the clauses: chains, skip flags and T4 owners of every probe point *)
Analysis(r) ==
  LET D == r.deck  T == r.file  X == TLCEval(Ctx(T))
      n == Len(D.pts)
      chains == TLCEval([k \in 1..n |-> Chain(D, D.pts[k])])
      skip == TLCEval([k \in 1..n |-> IsSkip(chains[k]) \/ OnEmitted(X, k)])
      own == TLCEval([k \in 1..n |-> IF skip[k] \/ IsBadDeck(chains[k]) THEN {} ELSE Owners(X, k)])
  IN [n |-> n, chains |-> chains, skip |-> skip, own |-> own]

PointVerdict(D, T, A, k) ==
  LET ch == A.chains[k] IN
  IF IsBadDeck(ch) THEN "baddeck"
  ELSE IF A.skip[k] THEN "skip"
  ELSE LET own == A.own[k] IN
       IF ~Live(D, ch) THEN (IF own = {} THEN "ok" ELSE "spurious")
       ELSE IF own = {} THEN "unowned"
       ELSE IF Cardinality(own) > 1 THEN "multi"
       ELSE LET id == CHOOSE x \in own : TRUE
                v == T.vols[PosOfVol(T, id)]
            IN IF Len(ch) = 1
               THEN (IF id = ch[1] THEN "ok" ELSE "wrongid")
               ELSE (IF OriginMatches(D, ch, v.origin) THEN "ok" ELSE "wrongprov")

OwnerVerdict(r, A) ==
  LET D == r.deck  T == r.file
      pv == TLCEval([k \in 1..A.n |-> PointVerdict(D, T, A, k)])
      kinds == { pv[k] : k \in 1..A.n } \ {"ok", "skip"}
      firstOf(kind) == CHOOSE k \in 1..A.n : pv[k] = kind /\ \A j \in 1..(k - 1) : pv[j] # kind
      okdeep == { k \in 1..A.n : pv[k] = "ok" /\ Len(A.chains[k]) > 1 /\ Cardinality(A.own[k]) = 1 }
      keys == UNION { InventedKeys(A.chains[k], T.vols[PosOfVol(T, CHOOSE x \in A.own[k] : TRUE)].origin) : k \in okdeep }
      inconsistent == \E a, b \in keys : (a[1] = b[1]) # (a[2] = b[2])
  IN [bad |-> { <<kind, firstOf(kind)>> : kind \in kinds }
              \cup (IF inconsistent THEN {<<"lattice_keys_inconsistent", 0>>} ELSE {}),
      nowners |-> Cardinality({ A.chains[k] : k \in { j \in 1..A.n : pv[j] = "ok" /\ Live(D, A.chains[j]) } }),
      nchecked |-> Cardinality({ k \in 1..A.n : pv[k] # "skip" }),
      ndeep |-> Cardinality({ k \in 1..A.n : pv[k] = "ok" /\ Len(A.chains[k]) > 1 })]

ZeroImpVerdict(r) ==
  LET D == r.deck  T == r.file
      lvl0 == { c \in SeqSet(D.cells) : c.u = 0 }
      zero == { c.n : c \in { x \in lvl0 : x.imp = 0 } }
      noted == { x \in ToSet(r.note) : x \in { c.n : c \in lvl0 } }
      vids == VolIds(T)
  IN (IF noted # zero THEN {<<"note", 0>>} ELSE {})
     \cup (IF zero \cap vids # {} THEN {<<"zero_imp_converted", 0>>} ELSE {})
     \cup (IF \E i \in 1..Len(T.vols) : T.vols[i].origin # <<>>
                 /\ T.vols[i].origin[Len(T.vols[i].origin)][2] \in zero
           THEN {<<"zero_imp_provenance", 0>>} ELSE {})

(* polynomial identity (C02/C04): the SURF that keeps the number of a polynomial deck surface *)
(* has, up to a non-zero factor, exactly the coefficients of the card's polynomial            *)
Proportional(w, q) ==
  /\ w.pivot # 0 /\ q[w.pivot] # 0
  /\ \A i \in 1..10 : w.ratios[i][2] # 0 /\ w.ratios[i][1] * q[w.pivot] = w.ratios[i][2] * q[i]
(* coefficients (times 4) of the quadratic function whose value at doubled point P is F4[P] = 4 f(P/2), *)
(* by interpolation on the unisolvent set {0, +-e_i, e_i + e_j}                                       *)
QuadOfValues(F(_)) ==
  LET k == F(<<0,0,0>>)
      a == (F(<<2,0,0>>) + F(<<-2,0,0>>)) \div 2 - k
      b == (F(<<0,2,0>>) + F(<<0,-2,0>>)) \div 2 - k
      c == (F(<<0,0,2>>) + F(<<0,0,-2>>)) \div 2 - k
      g == (F(<<2,0,0>>) - F(<<-2,0,0>>)) \div 2
      h == (F(<<0,2,0>>) - F(<<0,-2,0>>)) \div 2
      j == (F(<<0,0,2>>) - F(<<0,0,-2>>)) \div 2
  IN << a, b, c, F(<<2,2,0>>) - a - b - g - h - k, F(<<0,2,2>>) - b - c - h - j - k,
        F(<<2,0,2>>) - a - c - g - j - k, g, h, j, k >>
(* the polynomial of deck surface s in the main frame (its own TR number applied) *)
MainQuad(D, s) ==
  LET q == CardQ(s)
      F(P) == Q4(q, IF s.tr = 0 THEN P ELSE ToAux(TrOf(D, s.tr), P))
  IN QuadOfValues(F)
WitnessVerdict(r) ==
  LET D == r.deck  T == r.file
      cands == { s \in SeqSet(D.surfs) : ~IsTorus(s) /\ ~IsBody(s) }
      witOf(n) == { T.wit[i] : i \in { j \in 1..Len(T.wit) : T.wit[j].id = n } }
      bad == { s \in cands : \E w \in witOf(s.n) : ~Proportional(w, MainQuad(D, s)) }
  IN { <<"locus", s.n>> : s \in bad }

(***************************************************************************)
(* C09 / C13: composition of the volume that owns a point.  The adapter    *)
(* gives, for every composition name met in GEOMCOMP or COMPOSITION, the   *)
(* material number and the density class encoded in the name (T.cinfo);    *)
(* a density class is a numeric value, whatever its spelling (D.cells[i].  *)
(* rho is the class of the cell's density, 0 for void).                    *)
(***************************************************************************)
NameOfVol(T, id) ==
  LET rows == { r \in 1..Len(T.geomcomp.rows) : \E x \in 1..Len(T.geomcomp.rows[r].ids) : T.geomcomp.rows[r].ids[x] = id }
  IN IF rows = {} THEN "?" ELSE T.geomcomp.rows[CHOOSE r \in rows : TRUE].name
CInfo(T, name) ==
  LET ix == { i \in 1..Len(T.cinfo) : T.cinfo[i].name = name }
  IN IF ix = {} THEN [name |-> name, mat |-> -1, rho |-> -1, defined |-> FALSE] ELSE T.cinfo[CHOOSE i \in ix : TRUE]
CompoVerdict(r, A) ==
  LET D == r.deck  T == r.file
      chains == A.chains
      pts == { k \in 1..A.n : ~A.skip[k] /\ Live(D, chains[k]) /\ Cardinality(A.own[k]) = 1 }
      volOf == [k \in pts |-> CHOOSE id \in A.own[k] : TRUE]
      cellAt(k) == InnerCell(D, chains[k])
      info == TLCEval([k \in pts |-> CInfo(T, NameOfVol(T, volOf[k]))])
      bad(k) == LET c == cellAt(k)  i == info[k] IN
                IF c.mat = 0 THEN (IF i.name = "m0" THEN "ok" ELSE "void_not_m0")
                ELSE IF ~i.defined THEN "composition_undefined"
                ELSE IF i.mat # c.mat THEN "wrong_material"
                ELSE IF i.rho # c.rho THEN "wrong_density"
                ELSE "ok"
      kinds == { bad(k) : k \in pts } \ {"ok"}
      split == \E k1, k2 \in pts : cellAt(k1).mat = cellAt(k2).mat /\ cellAt(k1).rho = cellAt(k2).rho
                                      /\ cellAt(k1).mat # 0 /\ info[k1].name # info[k2].name
  IN { <<kd, CHOOSE k \in pts : bad(k) = kd>> : kd \in kinds }
     \cup (IF split THEN {<<"same_density_two_compositions", 0>>} ELSE {})

(***************************************************************************)
(* C16: boundary conditions.  A flagged surface that bounds a converted    *)
(* cell yields exactly one entry of the right kind designating a SURF of   *)
(* the file with the flagged surface's locus; nothing else yields an       *)
(* entry; a flag on a macrobody is rejected.                               *)
(***************************************************************************)
RECURSIVE LeafSurfs(_)
LeafSurfs(t) == CASE t[1] = "S" -> {AbsI(t[2])}
                  [] t[1] \in {"C", "R"} -> {}
                  [] t[1] = "N" -> LeafSurfs(t[2])
                  [] OTHER -> UNION { LeafSurfs(t[i]) : i \in 2..Len(t) }
(* A flagged surface bounds a converted cell directly (instance <<n, 0>>), through the TRCL of the cell that     *)
(* names it (instance <<n, c, 0>>: the cell's own copy of the surface, moved with the cell) or through a qualified *)
(* number 1000*c + n written on another cell (the same copy).  Every instance is due an entry of the flag's     *)
(* kind on a surface of the file with the instance's locus; entries are per surface of the file: copies that    *)
(* the de-duplication merged share one entry, copies kept apart have one each.                                  *)
InstQuad(D, s, k) ==
  LET q == CardQ(s)
      F(P) == LET P1 == IF k = 0 THEN P ELSE ToAux(CellOf(D, k).trcl, P)
              IN Q4(q, IF s.tr = 0 THEN P1 ELSE ToAux(TrOf(D, s.tr), P1))
  IN QuadOfValues(F)
BCVerdict(r) ==
  LET D == r.deck  T == r.file
      flagged == { s \in SeqSet(D.surfs) : s.bc # "" }
      conv == { x \in SeqSet(D.cells) : x.u = 0 /\ x.imp # 0 }
      (* <<surface number, cell whose TRCL moves it or 0>> for every leaf of a converted cell *)
      (* third component: 1 for a qualified number - the converter keeps the surface it generates for the number *)
      (* 1000*c + n apart from the copy it makes for cell c itself (same locus, one entry each unless merged)    *)
      instOf(c, n) == IF ~HasSurf(D, n) THEN <<n % 1000, IF CellOf(D, n \div 1000).hastrcl THEN n \div 1000 ELSE 0, 1>>
                      ELSE <<n, IF c.hastrcl THEN c.n ELSE 0, 0>>
      used == UNION { { instOf(c, n) : n \in LeafSurfs(c.geom) } : c \in conv }
  IN IF \E s \in flagged : IsBody(s)
     THEN (IF r.result = "ok" THEN {<<"macrobody_flag_accepted", 0>>} ELSE {})
     ELSE IF r.result # "ok" THEN {<<"crash", 0>>}
     ELSE
       LET surfOf(n) == CHOOSE s \in SeqSet(D.surfs) : s.n = n
           insts == { i \in used : \E s \in flagged : s.n = i[1] /\ ~IsBody(s) }
           entries == T.bc.items
           kindOf(s) == IF s.bc = "*" THEN "REFLECTION" ELSE "COSINUS"
           witOf(n) == { T.wit[x] : x \in { y \in 1..Len(T.wit) : T.wit[y].id = n } }
           surfIds == { T.surfs[x].id : x \in 1..Len(T.surfs) }
           (* the entry designates the flagged surface itself when its number is written in the file (the volumes  *)
           (* of the cells it bounds name that number); only a surface merged away by the de-duplication may be   *)
           (* designated through the identical surface that replaced it                                          *)
           match(e, i) == LET s == surfOf(i[1]) IN
                          /\ e.kind = kindOf(s)
                          /\ \E w \in witOf(e.id) : Proportional(w, InstQuad(D, s, i[2]))
                          /\ (i[2] = 0 /\ s.n \in surfIds => e.id = s.n)
           M(i) == { x \in 1..Len(entries) : match(entries[x], i) }
       IN { <<"entry_missing_or_repeated", i[1]>> :
              i \in { x \in insts : M(x) = {} \/ Cardinality(M(x)) > Cardinality({ y \in insts : M(y) = M(x) }) } }
          \cup { <<"entry_missing_or_repeated", entries[x].id>> :
                   x \in { y \in 1..Len(entries) : \E z \in 1..Len(entries) : z # y /\ entries[z].id = entries[y].id } }
          \cup { <<"entry_for_no_flagged_bounding_surface", entries[x].id>> :
                   x \in { y \in 1..Len(entries) : ~\E i \in insts : match(entries[y], i) } }

Clauses == IF "CLAUSES" \in DOMAIN IOEnv THEN IOEnv.CLAUSES ELSE "owner,valid"
HasClause(c) == \E i \in 1..(Len(Clauses) - Len(c) + 1) : SubSeq(Clauses, i, i + Len(c) - 1) = c

Verdict(r) ==
  IF HasClause("bc") /\ r.result # "ok"
  THEN [tid |-> r.tid, bad |-> BCVerdict(r), nowners |-> 0, nchecked |-> 0, ndeep |-> 0]
  ELSE IF r.result # "ok" THEN [tid |-> r.tid, bad |-> {<<"crash", 0>>}, nowners |-> 0, nchecked |-> 0, ndeep |-> 0]
  ELSE LET A == IF HasClause("owner") \/ HasClause("compo") THEN Analysis(r) ELSE [n |-> 0]
           ov == IF HasClause("owner") THEN OwnerVerdict(r, A)
                 ELSE [bad |-> {}, nowners |-> 0, nchecked |-> 0, ndeep |-> 0]
           fv == IF HasClause("valid") THEN { <<d, 0>> : d \in FileDefects(r.file) } ELSE {}
           zv == IF HasClause("zeroimp") THEN ZeroImpVerdict(r) ELSE {}
           wv == IF HasClause("witness") THEN WitnessVerdict(r) ELSE {}
           cv == IF HasClause("compo") THEN CompoVerdict(r, A) ELSE {}
           bv == IF HasClause("bc") THEN BCVerdict(r) ELSE {}
       IN [tid |-> r.tid, bad |-> ov.bad \cup fv \cup zv \cup wv \cup cv \cup bv, nowners |-> ov.nowners,
           nchecked |-> ov.nchecked, ndeep |-> ov.ndeep]

BlockVerdict(b) == LET tr == BlockTraces(b)
                   IN [block |-> b, n |-> Len(tr), v |-> { Verdict(tr[i]) : i \in 1..Len(tr) }]

VARIABLE blk
Init == blk = 0
Pick == blk = 0 /\ \E b \in 1..NB : blk' = -b
Check == blk < 0 /\ PrintT(ToJson(BlockVerdict(-blk))) /\ blk' = -blk
Next == Pick \/ Check
=============================================================================
