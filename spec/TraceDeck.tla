----------------------------- MODULE TraceDeck -----------------------------
(***************************************************************************)
(* Validation of recorded conversions of whole decks against the           *)
(* specification.  One trace = one execution of the real converter on a    *)
(* generated abstract deck: the deck, the options, the outcome, the        *)
(* written file (tokens + sense rows) and the stdout NOTE.                 *)
(*                                                                         *)
(* Clauses (each check selects the ones its property is about):            *)
(*   owner  - C01/C05/C06/C07: the T4 owners of every probe point are      *)
(*            exactly what McnpSem.Locate prescribes, with id/provenance   *)
(*   valid  - C08: T4Sem.FileValid                                         *)
(*   zeroimp- C12: NOTE list and absent volumes = zero-importance cells    *)
(* A failing clause yields a verdict naming it (verdicts are total).       *)
(***************************************************************************)
EXTENDS McnpSem, T4Sem, Json, IOUtils

(* the harness writes one file of traces per block so that blocks are read in parallel *)
BlockTraces(b) == JsonDeserialize(IOEnv.TRACE_DIR \o "/b" \o ToString(b) \o ".json")
NB == 64

(* expected provenance pairs of a chain <<f, c1, .., c0>> *)
ExpectedOrigin(ch) == [i \in 1..(Len(ch) - 1) |-> <<ch[1], ch[i + 1]>>]

PointVerdict(D, T, X, ch, k) ==
  IF IsBadDeck(ch) THEN "baddeck"
  ELSE IF IsSkip(ch) \/ OnEmitted(X, k) THEN "skip"
  ELSE LET own == Owners(X, k) IN
       IF ~Live(D, ch) THEN (IF own = {} THEN "ok" ELSE "spurious")
       ELSE IF own = {} THEN "unowned"
       ELSE IF Cardinality(own) > 1 THEN "multi"
       ELSE LET id == CHOOSE x \in own : TRUE
                v == T.vols[PosOfVol(T, id)]
            IN IF Len(ch) = 1
               THEN (IF id = ch[1] THEN "ok" ELSE "wrongid")
               ELSE (IF v.origin = ExpectedOrigin(ch) THEN "ok" ELSE "wrongprov")

OwnerVerdict(r) ==
  LET D == r.deck  T == r.file  X == TLCEval(Ctx(T))
      chains == TLCEval([k \in 1..Len(D.pts) |-> Chain(D, D.pts[k])])
      pv == TLCEval([k \in 1..Len(D.pts) |-> PointVerdict(D, T, X, chains[k], k)])
      kinds == { pv[k] : k \in 1..Len(D.pts) } \ {"ok", "skip"}
      firstOf(kind) == CHOOSE k \in 1..Len(D.pts) : pv[k] = kind /\ \A j \in 1..(k - 1) : pv[j] # kind
  IN [bad |-> { <<kind, firstOf(kind)>> : kind \in kinds },
      nowners |-> Cardinality({ chains[k] : k \in { j \in 1..Len(D.pts) : pv[j] = "ok" /\ Live(D, chains[j]) } }),
      nchecked |-> Cardinality({ k \in 1..Len(D.pts) : pv[k] # "skip" }),
      ndeep |-> Cardinality({ k \in 1..Len(D.pts) : pv[k] = "ok" /\ Len(chains[k]) > 1 })]

ZeroImpVerdict(r) ==
  LET D == r.deck  T == r.file
      lvl0 == { c \in SeqSet(D.cells) : c.u = 0 }
      zero == { c.n : c \in { x \in lvl0 : x.imp = 0 } }
      noted == { x \in ToSet(r.note) : x \in { c.n : c \in lvl0 } }
      vids == VolIds(T)
  IN (IF noted # zero THEN {<<"note", 0>>} ELSE {})
     \cup (IF zero \cap vids # {} THEN {<<"zero_imp_converted", 0>>} ELSE {})
     \cup (IF \E i \in 1..Len(T.vols) : T.vols[i].origin # <<>>
                 /\ T.vols[i].origin[Len(T.vols[i].origin)][2] \in zero
           THEN {<<"zero_imp_provenance", 0>>} ELSE {})

(* polynomial identity (C02/C04): the SURF that keeps the number of a polynomial deck surface *)
(* has, up to a non-zero factor, exactly the coefficients of the card's polynomial            *)
Proportional(w, q) ==
  /\ w.pivot # 0 /\ q[w.pivot] # 0
  /\ \A i \in 1..10 : w.ratios[i][2] # 0 /\ w.ratios[i][1] * q[w.pivot] = w.ratios[i][2] * q[i]
(* coefficients (times 4) of the quadratic function whose value at doubled point P is F4[P] = 4 f(P/2), *)
(* by interpolation on the unisolvent set {0, +-e_i, e_i + e_j}                                       *)
QuadOfValues(F(_)) ==
  LET k == F(<<0,0,0>>)
      a == (F(<<2,0,0>>) + F(<<-2,0,0>>)) \div 2 - k
      b == (F(<<0,2,0>>) + F(<<0,-2,0>>)) \div 2 - k
      c == (F(<<0,0,2>>) + F(<<0,0,-2>>)) \div 2 - k
      g == (F(<<2,0,0>>) - F(<<-2,0,0>>)) \div 2
      h == (F(<<0,2,0>>) - F(<<0,-2,0>>)) \div 2
      j == (F(<<0,0,2>>) - F(<<0,0,-2>>)) \div 2
  IN << a, b, c, F(<<2,2,0>>) - a - b - g - h - k, F(<<0,2,2>>) - b - c - h - j - k,
        F(<<2,0,2>>) - a - c - g - j - k, g, h, j, k >>
(* the polynomial of deck surface s in the main frame (its own TR number applied) *)
MainQuad(D, s) ==
  LET q == CardQ(s)
      F(P) == Q4(q, IF s.tr = 0 THEN P ELSE ToAux(TrOf(D, s.tr), P))
  IN QuadOfValues(F)
WitnessVerdict(r) ==
  LET D == r.deck  T == r.file
      cands == { s \in SeqSet(D.surfs) : ~IsTorus(s) /\ ~IsBody(s) }
      witOf(n) == { T.wit[i] : i \in { j \in 1..Len(T.wit) : T.wit[j].id = n } }
      bad == { s \in cands : \E w \in witOf(s.n) : ~Proportional(w, MainQuad(D, s)) }
  IN { <<"locus", s.n>> : s \in bad }

Clauses == IF "CLAUSES" \in DOMAIN IOEnv THEN IOEnv.CLAUSES ELSE "owner,valid"
HasClause(c) == \E i \in 1..(Len(Clauses) - Len(c) + 1) : SubSeq(Clauses, i, i + Len(c) - 1) = c

Verdict(r) ==
  IF r.result # "ok" THEN [tid |-> r.tid, bad |-> {<<"crash", 0>>}, nowners |-> 0, nchecked |-> 0, ndeep |-> 0]
  ELSE LET ov == IF HasClause("owner") THEN OwnerVerdict(r)
                 ELSE [bad |-> {}, nowners |-> 0, nchecked |-> 0, ndeep |-> 0]
           fv == IF HasClause("valid") THEN { <<d, 0>> : d \in FileDefects(r.file) } ELSE {}
           zv == IF HasClause("zeroimp") THEN ZeroImpVerdict(r) ELSE {}
           wv == IF HasClause("witness") THEN WitnessVerdict(r) ELSE {}
       IN [tid |-> r.tid, bad |-> ov.bad \cup fv \cup zv \cup wv, nowners |-> ov.nowners,
           nchecked |-> ov.nchecked, ndeep |-> ov.ndeep]

BlockVerdict(b) == LET tr == BlockTraces(b)
                   IN [block |-> b, n |-> Len(tr), v |-> { Verdict(tr[i]) : i \in 1..Len(tr) }]

VARIABLE blk
Init == blk = 0
Pick == blk = 0 /\ \E b \in 1..NB : blk' = -b
Check == blk < 0 /\ PrintT(ToJson(BlockVerdict(-blk))) /\ blk' = -blk
Next == Pick \/ Check
=============================================================================
