------------------------------ MODULE McnpSem ------------------------------
(***************************************************************************)
(* MCNP's meaning of a deck: which cell chain owns a point.                *)
(*                                                                         *)
(* The point is carried DOWN through TRCL / FILL transformations and       *)
(* lattice elements (the converter works the other way round: it moves     *)
(* surfaces UP and flattens the hierarchy; the two computations share      *)
(* nothing).  Conventions: DESIGN.md section 4.                            *)
(*                                                                         *)
(* Abstract deck D (the JSON "adeck"):                                     *)
(*  D.surfs : seq of [n, k, p, d, tr, bc, hlen, flen]   (tr = 0: none)     *)
(*  D.trs   : seq of [n, o, m]                                             *)
(*  D.cells : seq of [n, mat, rho, geom, imp, u, lat, fill, hasftr, ftr,    *)
(*                    hastrcl, trcl, lranges, lunivs, lsurfs]              *)
(*    fill = 0: not filled;  lat in {0,1,2};  ftr / trcl : [o, m]          *)
(*    lranges = <<<<lo,hi>>,..>>, lunivs = fill array (first index fastest)*)
(*    lsurfs  = surface numbers of the lattice cell in card order (signed) *)
(***************************************************************************)
EXTENDS McnpSurf, Expr

SeqSet(s) == { s[i] : i \in 1..Len(s) }
HasSurf(D, n) == \E i \in 1..Len(D.surfs) : D.surfs[i].n = n
SurfOf(D, n) == D.surfs[CHOOSE i \in 1..Len(D.surfs) : D.surfs[i].n = n]
HasCellN(D, n) == \E i \in 1..Len(D.cells) : D.cells[i].n = n
CellOf(D, n) == D.cells[CHOOSE i \in 1..Len(D.cells) : D.cells[i].n = n]
TrOf(D, n) == LET t == D.trs[CHOOSE i \in 1..Len(D.trs) : D.trs[i].n = n] IN [o |-> t.o, m |-> t.m]
CellsOfU(D, u) == { c \in SeqSet(D.cells) : c.u = u }

(* sense of surface number n (facet k) at P given in the frame in which the card is written *)
RECURSIVE SurfSenseAt(_, _, _, _)
SurfSenseAt(D, n, k, P) ==
  IF HasSurf(D, n)
  THEN LET c == SurfOf(D, n)
           Pc == IF c.tr = 0 THEN P ELSE ToAux(TrOf(D, c.tr), P)
       IN LeafSense(c, k, Pc)
  ELSE (* implicit surface 1000*cell + surface: surface moved by the TRCL of that cell *)
       LET cc == CellOf(D, n \div 1000) IN
       SurfSenseAt(D, n % 1000, k, IF cc.hastrcl THEN ToAux(cc.trcl, P) ELSE P)

(* membership of P (frame of the universe the cell lives in) in cell c; *)
(* Touch: P lies on one of the surfaces consulted                       *)
RECURSIVE EvG(_, _, _, _, _), TouchG(_, _, _, _, _)
CellFrame(c, P) == IF c.hastrcl THEN ToAux(c.trcl, P) ELSE P
EvG(D, c, t, P, fuel) ==
  IF fuel = 0 THEN FALSE
  ELSE CASE t[1] = "S" -> LET s == SurfSenseAt(D, AbsI(t[2]), t[3], CellFrame(c, P))
                          IN IF t[2] > 0 THEN s > 0 ELSE s < 0
         [] t[1] = "C" -> LET cc == CellOf(D, t[2]) IN ~EvG(D, cc, cc.geom, P, fuel - 1)
         [] t[1] = "N" -> ~EvG(D, c, t[2], P, fuel)
         [] t[1] = "*" -> \A i \in 2..Len(t) : EvG(D, c, t[i], P, fuel)
         [] t[1] = ":" -> \E i \in 2..Len(t) : EvG(D, c, t[i], P, fuel)
         [] OTHER -> FALSE
TouchG(D, c, t, P, fuel) ==
  IF fuel = 0 THEN FALSE
  ELSE CASE t[1] = "S" -> SurfSenseAt(D, AbsI(t[2]), t[3], CellFrame(c, P)) = 0
         [] t[1] = "C" -> FALSE   \* the complemented cell is examined on its own by Locate
         [] t[1] = "N" -> TouchG(D, c, t[2], P, fuel)
         [] OTHER -> \E i \in 2..Len(t) : TouchG(D, c, t[i], P, fuel)
InCell(D, c, P) == EvG(D, c, c.geom, P, 6)
OnCell(D, c, P) == TouchG(D, c, c.geom, P, 6)

(***************************************************************************)
(* Lattices (conventions 5).  Base vectors are defined declaratively from  *)
(* the planes listed on the cell card: a_d carries the unit cell across    *)
(* the FIRST-listed surface of pair d.  All in doubled integer coordinates *)
(* (2*a_d), supplied by the generator as c.lvecs (checked against the      *)
(* planes by LatticeVecsOK, Lattice.tla).                                  *)
(***************************************************************************)
NDim(c) == Len(c.lranges)
IdxSet(c) ==
  IF NDim(c) = 1 THEN { <<i>> : i \in c.lranges[1][1]..c.lranges[1][2] }
  ELSE IF NDim(c) = 2 THEN { <<i, j>> : i \in c.lranges[1][1]..c.lranges[1][2],
                                         j \in c.lranges[2][1]..c.lranges[2][2] }
  ELSE { <<i, j, k>> : i \in c.lranges[1][1]..c.lranges[1][2],
                       j \in c.lranges[2][1]..c.lranges[2][2],
                       k \in c.lranges[3][1]..c.lranges[3][2] }
RangeLen(c, d) == c.lranges[d][2] - c.lranges[d][1] + 1
PosInArray(c, idx) ==
  1 + (idx[1] - c.lranges[1][1])
    + (IF NDim(c) >= 2 THEN (idx[2] - c.lranges[2][1]) * RangeLen(c, 1) ELSE 0)
    + (IF NDim(c) >= 3 THEN (idx[3] - c.lranges[3][1]) * RangeLen(c, 1) * RangeLen(c, 2) ELSE 0)
(* doubled shift of element idx; c.lvecs[d] = 2*a_d *)
LatShift(c, idx) ==
  [i \in 1..3 |-> (IF NDim(c) >= 1 THEN idx[1]*c.lvecs[1][i] ELSE 0)
                + (IF NDim(c) >= 2 THEN idx[2]*c.lvecs[2][i] ELSE 0)
                + (IF NDim(c) >= 3 THEN idx[3]*c.lvecs[3][i] ELSE 0)]

(* A transformation in parentheses after FILL=n (the form completed by --lattice) moves every element; *)
(* after a FILL ARRAY it belongs to the entry it follows, and the deck format of the generators can    *)
(* only write it after the last entry: it moves the last element of the array and no other             *)
ElemHasFtr(c, idx) == c.hasftr /\ (c.latopt \/ PosInArray(c, idx) = Len(c.lunivs))

(***************************************************************************)
(* Locate: chain of cell numbers from the innermost filler to the level-0  *)
(* container; <<>> = in no cell; <<-1>> = on a surface (point to be        *)
(* skipped); <<-2>> = deck not a partition there (generator defect).       *)
(* A lattice element appears as the marker -(1000*cell + position in the   *)
(* fill array) so that the provenance of lattice volumes can be compared.  *)
(***************************************************************************)
RECURSIVE Locate(_, _, _, _)
Locate(D, u, P, fuel) ==
  LET cs == CellsOfU(D, u)
      lats == { c \in cs : c.lat # 0 }
  IN
  IF fuel = 0 THEN <<-2>>
  ELSE IF lats # {} THEN
    LET c == CHOOSE x \in lats : TRUE
        (* the unit cell of element idx is the unit cell shifted: P - shift in the unit cell *)
        cand == { idx \in IdxSet(c) : LET P0 == Sub(P, LatShift(c, idx)) IN InCell(D, c, P0) \/ OnCell(D, c, P0) }
        edge == \E idx \in cand : OnCell(D, c, Sub(P, LatShift(c, idx)))
    IN IF cand = {} THEN <<>>
       ELSE IF edge THEN <<-1>>
       ELSE IF Cardinality(cand) > 1 THEN <<-2>>
       ELSE LET idx == CHOOSE x \in cand : TRUE
                uu == c.lunivs[PosInArray(c, idx)]
                P0 == Sub(P, LatShift(c, idx))
                mark == -(1000 * c.n + PosInArray(c, idx))     \* lattice element of cell c.n
            IN IF uu = 0 THEN <<>>
               ELSE IF uu = c.u THEN <<mark>>
               ELSE LET P1 == IF ElemHasFtr(c, idx) THEN ToAux(c.ftr, P0)
                              ELSE IF c.hastrcl THEN ToAux(c.trcl, P0) ELSE P0
                        inner == Locate(D, uu, P1, fuel - 1)
                    IN IF inner = <<>> THEN <<>>
                       ELSE IF inner[1] \in {-1, -2} THEN inner
                       ELSE Append(inner, mark)
  ELSE
    LET hit == { c \in cs : InCell(D, c, P) }
        edge == \E c \in cs : OnCell(D, c, P)
    IN IF edge THEN <<-1>>
       ELSE IF hit = {} THEN <<>>
       ELSE IF Cardinality(hit) > 1 THEN <<-2>>
       ELSE LET c == CHOOSE x \in hit : TRUE
            IN IF c.fill = 0 THEN <<c.n>>
               ELSE LET P1 == IF c.hasftr THEN ToAux(c.ftr, P)
                              ELSE IF c.hastrcl THEN ToAux(c.trcl, P) ELSE P
                        inner == Locate(D, c.fill, P1, fuel - 1)
                    IN IF inner = <<>> THEN <<>>
                       ELSE IF inner[1] \in {-1, -2} THEN inner
                       ELSE Append(inner, c.n)

Chain(D, P) == Locate(D, 0, P, 6)
IsSkip(ch) == ch # <<>> /\ ch[1] = -1
IsBadDeck(ch) == ch # <<>> /\ ch[1] = -2
Level0(ch) == ch[Len(ch)]
(* importance of a cell: the deck records the effective (max over particles) value *)
IsMark(x) == x < -1000
MarkCell(x) == (-x) \div 1000
Live(D, ch) == ch # <<>> /\ ch[1] \notin {-1, -2} /\ CellOf(D, Level0(ch)).imp # 0
(* the lowest-level cell whose material fills the point (a lattice element filled with its own universe *)
(* has the lattice cell's material)                                                                    *)
InnerCell(D, ch) == CellOf(D, IF IsMark(ch[1]) THEN MarkCell(ch[1]) ELSE ch[1])
MaxCellN(D) == CHOOSE m \in { D.cells[i].n : i \in 1..Len(D.cells) } : \A i \in 1..Len(D.cells) : D.cells[i].n <= m
=============================================================================
