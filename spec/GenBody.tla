------------------------------ MODULE GenBody ------------------------------
(***************************************************************************)
(* Generator of macrobody cards for C03: every body kind over parameter    *)
(* sets covering orientation (axis-aligned in all directions, the oblique  *)
(* orthogonal frame (1,2,2),(2,1,-2),(2,-2,1)), handedness and order of    *)
(* the edge vectors, both parameterisations of RHP/HEX, REC and ELL, both  *)
(* openings of TRC, and ARB polyhedra with permuted facet lists.           *)
(***************************************************************************)
EXTENDS McnpSurf, TLC, Json

CONSTANT Lvl

Body(k, p) == [n |-> 1, k |-> k, p |-> p, d |-> 1, tr |-> 0, bc |-> "", hlen |-> 0, flen |-> 0]
E(i, s) == [j \in 1..3 |-> IF j = i THEN s ELSE 0]
AxisVecs(len) == { E(i, s * len) : i \in 1..3, s \in {-1, 1} }
(* orthogonal frames: triples of mutually orthogonal integer vectors *)
Oblique == << <<1,2,2>>, <<2,1,-2>>, <<2,-2,1>> >>
Frames == { <<E(pm[1], s[1]*2), E(pm[2], s[2]*3), E(pm[3], s[3]*1)>> : pm \in Perms3, s \in [1..3 -> {-1, 1}] }
          \cup { <<Scale(s[1], Oblique[pm[1]]), Scale(s[2], Oblique[pm[2]]), Scale(s[3], Oblique[pm[3]])>>
                 : pm \in Perms3, s \in [1..3 -> {-1, 1}] }
FramesL == IF Lvl = 1 THEN { f \in Frames : f[1][1] # 0 \/ f[1] = <<0,2,0>> } ELSE Frames
Corners == IF Lvl = 1 THEN { <<-1, 0, 1>> } ELSE { <<-1, 0, 1>>, <<0, 0, 0>>, <<1, -2, 0>> }
Heights == IF Lvl = 1 THEN { <<0,0,3>>, <<0,-2,0>>, <<1,2,2>> } ELSE AxisVecs(2) \cup AxisVecs(3) \cup { <<1,2,2>>, <<-2,-1,2>> }
Len2(v) == Dot(v, v)
ISqrt(n) == CHOOSE r \in 0..20 : r*r = n
Perp(h) == { v \in { <<2,0,0>>, <<0,2,0>>, <<0,0,2>>, <<2,1,-2>>, <<2,-2,1>>, <<2,2,1>>, <<0,-1,0>>, <<1,0,0>> } : Dot(v, h) = 0 }

Kinds == {"rpp", "box", "sph", "rcc", "rhp15", "rhp9", "hex9", "rec12", "rec10", "trc", "ellneg", "ellpos", "wed", "arb"}

Bodies(k) ==
  CASE k = "rpp" -> { Body("rpp", <<x[1], x[2], y[1], y[2], z[1], z[2]>>)
                      : x \in {<<-2, 1>>, <<0, 3>>}, y \in {<<-1, 2>>, <<-3, -1>>}, z \in {<<-2, 2>>, <<1, 2>>} }
    [] k = "box" -> { Body("box", c \o f[1] \o f[2] \o f[3]) : c \in Corners, f \in FramesL }
    [] k = "sph" -> { Body("sph", <<c[1], c[2], c[3], r>>) : c \in Corners, r \in {1, 2, 3} }
    [] k = "rcc" -> { Body("rcc", c \o h \o <<r>>) : c \in Corners, h \in Heights, r \in {1, 2} }
    [] k = "rhp15" -> { Body("rhp", c \o f[3] \o f[1] \o Add(f[1], f[2]) \o Sub(f[2], f[1]))
                        : c \in Corners, f \in { x \in FramesL : Len2(x[1]) = Len2(x[2]) \/ Lvl = 2 } }
                      \cup { Body("rhp", c \o <<0,0,3>> \o <<2,0,0>> \o <<1,2,0>> \o <<-1,2,0>>) : c \in Corners }
    [] k \in {"rhp9", "hex9"} ->
         { [Body(IF k = "rhp9" THEN "rhp" ELSE "hex", c \o hr[1] \o hr[2]) EXCEPT !.hlen = ISqrt(Len2(hr[1]))]
           : c \in Corners, hr \in { x \in Heights \X (Perp(<<0,0,1>>) \cup Perp(<<0,1,0>>) \cup Perp(<<1,0,0>>)
                                                        \cup Perp(<<1,2,2>>) \cup Perp(<<-2,-1,2>>)) : Dot(x[1], x[2]) = 0 } }
    [] k = "rec12" -> { Body("rec", c \o f[3] \o f[1] \o f[2]) : c \in Corners, f \in FramesL }
    [] k = "rec10" -> { Body("rec", c \o f[3] \o f[1] \o <<m>>) : c \in Corners, f \in FramesL, m \in {1, 2} }
    [] k = "trc" -> { Body("trc", c \o h \o <<r[1], r[2]>>) : c \in Corners, h \in Heights, r \in {<<2, 1>>, <<1, 3>>, <<3, 1>>} }
    [] k = "ellneg" -> { Body("ell", c \o a \o <<-r>>) : c \in Corners, a \in Heights, r \in {1, 2} }
    [] k = "ellpos" -> { [Body("ell", Add(c, a) \o Sub(c, a) \o <<L>>) EXCEPT !.flen = 2 * ISqrt(Len2(a))]
                         : c \in Corners, a \in { E(i, s) : i \in 1..3, s \in {-1, 1, 2} } \cup { <<1,2,2>> },
                           L \in {3, 4} }
    [] k = "wed" -> { Body("wed", c \o f[1] \o f[2] \o f[3]) : c \in Corners, f \in FramesL }
    [] k = "arb" ->
         LET tet(c) == c \o Add(c, <<3,0,0>>) \o Add(c, <<0,3,0>>) \o Add(c, <<0,0,3>>)
                       \o <<0,0,0, 0,0,0, 0,0,0, 0,0,0>>
             prism(c) == c \o Add(c, <<2,0,0>>) \o Add(c, <<0,2,0>>)
                         \o Add(c, <<0,0,3>>) \o Add(c, <<2,0,3>>) \o Add(c, <<0,2,3>>) \o <<0,0,0, 0,0,0>>
             hexa(c) == c \o Add(c, <<2,0,0>>) \o Add(c, <<2,2,0>>) \o Add(c, <<0,2,0>>)
                        \o Add(c, <<0,0,2>>) \o Add(c, <<1,0,2>>) \o Add(c, <<1,1,2>>) \o Add(c, <<0,1,2>>)
         IN { Body("arb", tet(c) \o fl) : c \in Corners,
                fl \in { <<123, 124, 134, 234, 0, 0>>, <<234, 143, 421, 321, 0, 0>> } }
            \cup { Body("arb", prism(c) \o fl) : c \in Corners,
                   fl \in { <<123, 456, 1245, 2356, 1346, 0>>, <<1364, 321, 5421, 654, 3265, 0>> } }
            \cup { Body("arb", hexa(c) \o fl) : c \in Corners,
                   fl \in { <<1234, 1265, 1485, 2376, 3487, 5678>>, <<8765, 4321, 6215, 5841, 6732, 7843>> } }

(* admissibility of the body for MCNP: hexahedron facets of ARB must be planar *)
Planar(b) ==
  b.k = "arb" =>
    LET fs == SelectSeq(SubSeq(b.p, 25, 30), LAMBDA x : x # 0)
    IN \A i \in 1..Len(fs) :
         LET ix == ArbFacetIdx(fs[i])
             v(j) == V3(b.p, 3*ix[j] - 2)
         IN Len(ix) = 4 => Dot(Cross(Sub(v(2), v(1)), Sub(v(3), v(1))), Sub(v(4), v(1))) = 0

VARIABLES pc, kind, body
Init == pc = "kind" /\ kind = "" /\ body = Body("sph", <<0, 0, 0, 1>>)
Choose == pc = "kind" /\ \E k \in Kinds : kind' = k /\ pc' = "body" /\ UNCHANGED body
Pick == pc = "body" /\ \E b \in { x \in Bodies(kind) : Planar(x) } : body' = b /\ pc' = "emit" /\ UNCHANGED kind
Emit == pc = "emit" /\ PrintT(ToJson([card |-> body, gen |-> kind, nfacets |-> NFacets(body)]))
        /\ pc' = "done" /\ UNCHANGED <<kind, body>>
Next == Choose \/ Pick \/ Emit
=============================================================================
