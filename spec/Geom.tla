-------------------------------- MODULE Geom --------------------------------
(***************************************************************************)
(* Exact integer geometry.  Probe points are kept in DOUBLED coordinates   *)
(* (P = 2p, usually all entries odd, i.e. p is a half-integer point) so    *)
(* that integer-parameter surfaces never pass through a probe point.       *)
(* Quadrics are 10-vectors in MCNP's GQ order (A B C D E F G H J K):       *)
(*   A x^2 + B y^2 + C z^2 + D xy + E yz + F zx + G x + H y + J z + K.     *)
(* Anchors: t4_geom_convert/Kernel/VectUtils.py, TransformationQuad.py,    *)
(* MIP/geom/transforms.py.                                                 *)
(***************************************************************************)
EXTENDS Integers, Sequences, FiniteSets

Sgn(x) == IF x > 0 THEN 1 ELSE IF x < 0 THEN -1 ELSE 0
AbsI(x) == IF x < 0 THEN -x ELSE x
Dot(a, b) == a[1]*b[1] + a[2]*b[2] + a[3]*b[3]
Cross(a, b) == << a[2]*b[3] - a[3]*b[2], a[3]*b[1] - a[1]*b[3], a[1]*b[2] - a[2]*b[1] >>
Sub(a, b) == << a[1]-b[1], a[2]-b[2], a[3]-b[3] >>
Add(a, b) == << a[1]+b[1], a[2]+b[2], a[3]+b[3] >>
Scale(k, a) == << k*a[1], k*a[2], k*a[3] >>
V3(p, i) == << p[i], p[i+1], p[i+2] >>

(* 4 * f(P/2) for the integer quadric q *)
Q4(q, P) == q[1]*P[1]*P[1] + q[2]*P[2]*P[2] + q[3]*P[3]*P[3]
            + q[4]*P[1]*P[2] + q[5]*P[2]*P[3] + q[6]*P[3]*P[1]
            + 2*(q[7]*P[1] + q[8]*P[2] + q[9]*P[3]) + 4*q[10]

(* exact sign of a + b*sqrt(r), r >= 0 *)
SgnSqrt(a, b, r) ==
  IF b = 0 \/ r = 0 THEN Sgn(a)
  ELSE IF a = 0 THEN Sgn(b)
  ELSE IF Sgn(a) = Sgn(b) THEN Sgn(a)
  ELSE (* opposite signs: compare a^2 with b^2 r *)
       LET d == a*a - b*b*r IN
       IF d = 0 THEN 0 ELSE IF d > 0 THEN Sgn(a) ELSE Sgn(b)

(***************************************************************************)
(* Rigid motions, MCNP TR convention with m = 1 (DESIGN.md 4.3):           *)
(*   tr = [o |-> <<o1,o2,o3>>, m |-> <<b1..b9>>]   (integer entries; the   *)
(*   matrices used inside TLC are the 24 proper signed permutations)       *)
(*   main = o + u1*(b1,b2,b3) + u2*(b4,b5,b6) + u3*(b7,b8,b9)              *)
(* i.e. the rows of the 3x3 array are the images of the auxiliary axes.    *)
(***************************************************************************)
IdTr == [o |-> <<0,0,0>>, m |-> <<1,0,0, 0,1,0, 0,0,1>>]
TrRow(tr, i) == << tr.m[3*i-2], tr.m[3*i-1], tr.m[3*i] >>
(* point with doubled main coordinates P -> doubled auxiliary coordinates *)
ToAux(tr, P) == LET d == << P[1] - 2*tr.o[1], P[2] - 2*tr.o[2], P[3] - 2*tr.o[3] >>
                IN << Dot(TrRow(tr,1), d), Dot(TrRow(tr,2), d), Dot(TrRow(tr,3), d) >>
(* doubled auxiliary coordinates U -> doubled main coordinates *)
ToMain(tr, U) == << 2*tr.o[1] + U[1]*tr.m[1] + U[2]*tr.m[4] + U[3]*tr.m[7],
                    2*tr.o[2] + U[1]*tr.m[2] + U[2]*tr.m[5] + U[3]*tr.m[8],
                    2*tr.o[3] + U[1]*tr.m[3] + U[2]*tr.m[6] + U[3]*tr.m[9] >>
(* image of a vector (no displacement) *)
VecToMain(tr, u) == << u[1]*tr.m[1] + u[2]*tr.m[4] + u[3]*tr.m[7],
                       u[1]*tr.m[2] + u[2]*tr.m[5] + u[3]*tr.m[8],
                       u[1]*tr.m[3] + u[2]*tr.m[6] + u[3]*tr.m[9] >>
Det3(m) == m[1]*(m[5]*m[9] - m[6]*m[8]) - m[2]*(m[4]*m[9] - m[6]*m[7]) + m[3]*(m[4]*m[8] - m[5]*m[7])
IsProperRotation(tr) ==
  /\ \A i, j \in 1..3 : Dot(TrRow(tr,i), TrRow(tr,j)) = (IF i = j THEN 1 ELSE 0)
  /\ Det3(tr.m) = 1
(* composition: first a (innermost), then b:  x = b(a(u)) *)
Compose(b, a) ==
  [o |-> Add(b.o, VecToMain(b, a.o)),
   m |-> LET r(i) == VecToMain(b, TrRow(a, i))
         IN << r(1)[1], r(1)[2], r(1)[3], r(2)[1], r(2)[2], r(2)[3], r(3)[1], r(3)[2], r(3)[3] >>]

(* the 24 proper signed permutation matrices, as row-image lists *)
Perms3 == { <<1,2,3>>, <<1,3,2>>, <<2,1,3>>, <<2,3,1>>, <<3,1,2>>, <<3,2,1>> }
SignedPerm(perm, sg) ==
  LET e(i, s) == [j \in 1..3 |-> IF j = i THEN s ELSE 0]
      r1 == e(perm[1], sg[1])  r2 == e(perm[2], sg[2])  r3 == e(perm[3], sg[3])
  IN << r1[1], r1[2], r1[3], r2[1], r2[2], r2[3], r3[1], r3[2], r3[3] >>
Rotations24 == { m \in { SignedPerm(p, s) : p \in Perms3, s \in [1..3 -> {-1, 1}] } : Det3(m) = 1 }
=============================================================================
