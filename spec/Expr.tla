-------------------------------- MODULE Expr --------------------------------
(***************************************************************************)
(* Cell-geometry expressions of MCNP: abstract trees, their Boolean        *)
(* meaning, the reference reading of a token string (blank = intersection  *)
(* binds tighter than colon = union; parentheses; #n and #( ) complements),*)
(* rendering of a tree to tokens, and De Morgan complement elimination.    *)
(*                                                                         *)
(* Trees (every node is a tuple whose first entry is a string, because TLC *)
(* cannot mix integers and tuples in one collection):                      *)
(*   <<"S", n, k>>   signed surface n (n # 0), facet k (0 = none)          *)
(*   <<"C", c>>      #c, complement of cell c                              *)
(*   <<"N", t>>      #( t )                                                *)
(*   <<"*", t1, .., tm>>  intersection     <<":", t1, .., tm>>  union      *)
(*   <<"^", c>>      implementation spelling of <<"C", c>> (post-parse)    *)
(*   <<"@", c>>      implementation spelling of "cell c itself" (a doubly  *)
(*                   complemented cell, #c inside #( ))                    *)
(*   <<"R", c>>      reference to a converted cell (post-fill, CellRef)    *)
(* Anchors: MIP/geom/parsegeom.py, grammars/geom.ebnf, semantics.py,       *)
(* CellConversion.pot_complement.                                          *)
(***************************************************************************)
EXTENDS Integers, Sequences, FiniteSets, TLC

Abs(x) == IF x < 0 THEN -x ELSE x
Op(t) == t[1]
IsSurf(t) == t[1] = "S"
IsCompl(t) == t[1] = "C" \/ t[1] = "^"
IsNary(t) == t[1] = "*" \/ t[1] = ":"
Kids(t) == 2..Len(t)

(* environment: sequence of records [n |-> cell number, geom |-> tree] *)
HasCell(env, c) == \E i \in 1..Len(env) : env[i].n = c
GeomOf(env, c) == env[CHOOSE i \in 1..Len(env) : env[i].n = c].geom

(* Boolean variables of a tree: <<|n|, k>> pairs, looking through complements *)
RECURSIVE VarsOf(_, _, _)
VarsOf(env, t, fuel) ==
  IF fuel = 0 THEN {}
  ELSE CASE IsSurf(t) -> {<<Abs(t[2]), t[3]>>}
         [] IsCompl(t) \/ t[1] = "@" -> IF HasCell(env, t[2]) THEN VarsOf(env, GeomOf(env, t[2]), fuel - 1) ELSE {}
         [] t[1] = "N" -> VarsOf(env, t[2], fuel)
         [] t[1] = "R" -> {}
         [] OTHER -> UNION { VarsOf(env, t[i], fuel) : i \in Kids(t) }

(* meaning under an assignment a : variables -> BOOLEAN ("positive sense") *)
RECURSIVE Eval(_, _, _, _)
Eval(env, t, a, fuel) ==
  IF fuel = 0 THEN FALSE
  ELSE CASE IsSurf(t) -> IF t[2] > 0 THEN a[<<t[2], t[3]>>] ELSE ~a[<<-t[2], t[3]>>]
         [] IsCompl(t) -> ~Eval(env, GeomOf(env, t[2]), a, fuel - 1)
         [] t[1] = "@" -> Eval(env, GeomOf(env, t[2]), a, fuel - 1)
         [] t[1] = "N" -> ~Eval(env, t[2], a, fuel)
         [] t[1] = "*" -> \A i \in Kids(t) : Eval(env, t[i], a, fuel)
         [] t[1] = ":" -> \E i \in Kids(t) : Eval(env, t[i], a, fuel)
         [] OTHER -> FALSE

Assignments(V) == [V -> BOOLEAN]
TruthTable(env, t, V) == { a \in Assignments(V) : Eval(env, t, a, 8) }
Equivalent(env, t1, t2) ==
  LET V == VarsOf(env, t1, 8) \cup VarsOf(env, t2, 8)
  IN \A a \in Assignments(V) : Eval(env, t1, a, 8) = Eval(env, t2, a, 8)

(* well-formedness of implementation trees after complement elimination *)
RECURSIVE ComplementFree(_)
ComplementFree(t) ==
  CASE IsSurf(t) -> TRUE
    [] t[1] = "R" -> TRUE
    [] IsNary(t) -> \A i \in Kids(t) : ComplementFree(t[i])
    [] OTHER -> FALSE

(***************************************************************************)
(* De Morgan: the specification of what complement elimination computes.   *)
(***************************************************************************)
RECURSIVE Inv(_, _, _), Elim(_, _, _)
Inv(env, t, fuel) ==
  IF fuel = 0 THEN t
  ELSE CASE IsSurf(t) -> <<"S", -t[2], t[3]>>
         [] IsCompl(t) -> Elim(env, GeomOf(env, t[2]), fuel - 1)
         [] t[1] = "N" -> Elim(env, t[2], fuel)
         [] t[1] = "*" -> <<":">> \o [i \in 1..(Len(t) - 1) |-> Inv(env, t[i + 1], fuel)]
         [] t[1] = ":" -> <<"*">> \o [i \in 1..(Len(t) - 1) |-> Inv(env, t[i + 1], fuel)]
         [] OTHER -> t
Elim(env, t, fuel) ==
  IF fuel = 0 THEN t
  ELSE CASE IsSurf(t) -> t
         [] IsCompl(t) -> Inv(env, GeomOf(env, t[2]), fuel - 1)
         [] t[1] = "N" -> Inv(env, t[2], fuel)
         [] IsNary(t) -> <<t[1]>> \o [i \in 1..(Len(t) - 1) |-> Elim(env, t[i + 1], fuel)]
         [] OTHER -> t

(***************************************************************************)
(* Tokens: <<"S",n,k>>, <<"C",c>>, <<"(">>, <<")">>, <<":">>, <<"#(">>.     *)
(* Render(t, full): minimal parentheses (full = FALSE) or parentheses      *)
(* around every compound operand (full = TRUE).                            *)
(***************************************************************************)
RECURSIVE Render(_, _), RenderKids(_, _, _, _)
NeedsParen(parent, kid, full) ==
  /\ IsNary(kid)
  /\ \/ full
     \/ parent = "*" /\ kid[1] = ":"
Render(t, full) ==
  CASE IsSurf(t) -> <<t>>
    [] t[1] = "C" -> <<t>>
    [] t[1] = "N" -> <<<<"#(">>>> \o Render(t[2], full) \o <<<<")">>>>
    [] OTHER -> RenderKids(t, 2, full, <<>>)
RenderKids(t, i, full, acc) ==
  IF i > Len(t) THEN acc
  ELSE LET k == t[i]
           body == IF NeedsParen(t[1], k, full)
                   THEN <<<<"(">>>> \o Render(k, full) \o <<<<")">>>>
                   ELSE Render(k, full)
           sep == IF i > 2 /\ t[1] = ":" THEN <<<<":">>>> ELSE <<>>
       IN RenderKids(t, i + 1, full, acc \o sep \o body)

(***************************************************************************)
(* Reference reader (recursive descent): union := isect (":" isect)* ;     *)
(* isect := operand+ ; operand := S | C | "(" union ")" | "#(" union ")".  *)
(* Each function returns <<tree, next position>>; <<"ERR">> on failure.    *)
(***************************************************************************)
ERR == <<<<"ERR">>, 0>>
StartsOperand(tk, i) == i <= Len(tk) /\ tk[i][1] \in {"S", "C", "(", "#("}
RECURSIVE RUnion(_, _), RUnionTail(_, _, _), RIsect(_, _), RIsectTail(_, _, _), ROperand(_, _)
ROperand(tk, i) ==
  IF i > Len(tk) THEN ERR
  ELSE CASE tk[i][1] \in {"S", "C"} -> <<tk[i], i + 1>>
         [] tk[i][1] \in {"(", "#("} ->
              LET r == RUnion(tk, i + 1)
              IN IF r[2] = 0 \/ r[2] > Len(tk) \/ tk[r[2]][1] # ")" THEN ERR
                 ELSE <<IF tk[i][1] = "(" THEN r[1] ELSE <<"N", r[1]>>, r[2] + 1>>
         [] OTHER -> ERR
RIsect(tk, i) == LET r == ROperand(tk, i) IN IF r[2] = 0 THEN ERR ELSE RIsectTail(tk, r[1], r[2])
RIsectTail(tk, acc, i) ==
  IF ~StartsOperand(tk, i) THEN <<acc, i>>
  ELSE LET r == ROperand(tk, i)
       IN IF r[2] = 0 THEN ERR ELSE RIsectTail(tk, <<"*", acc, r[1]>>, r[2])
RUnion(tk, i) == LET r == RIsect(tk, i) IN IF r[2] = 0 THEN ERR ELSE RUnionTail(tk, r[1], r[2])
RUnionTail(tk, acc, i) ==
  IF i > Len(tk) \/ tk[i][1] # ":" THEN <<acc, i>>
  ELSE LET r == RIsect(tk, i + 1)
       IN IF r[2] = 0 THEN ERR ELSE RUnionTail(tk, <<":", acc, r[1]>>, r[2])
Read(tk) == LET r == RUnion(tk, 1) IN IF r[2] = Len(tk) + 1 THEN r[1] ELSE <<"ERR">>

=============================================================================
