------------------------------- MODULE GenBC -------------------------------
(***************************************************************************)
(* Generator for C16: a fixed small geometry whose surfaces receive        *)
(* reflecting (star) and white (plus) flags in every position:                   *)
(*   1 so 4 (outer)   2 px 0   3 px 0 (duplicate of 2)   4 pz 1            *)
(*   5 kz 0 1 1 (one-sheet cone: a surface collection)   6 py 3 (unused)   *)
(*   7 rpp (macrobody, used by variant "body")   8 c/z 0 0 1               *)
(* cells: 1 = -1 -2;  2 = -1 3 -4;  3 = -1 3 4 [-5 | -7 | -8];             *)
(*        5 = the rest of cell 3;  4 = 1 (importance 0)                    *)
(* so that a flagged surface may be a duplicate of an earlier or later     *)
(* surface, unused, part of a collection, or a macrobody (to be rejected). *)
(***************************************************************************)
EXTENDS Integers, Sequences, FiniteSets, TLC, Json

Card(n, k, p, bc) == [n |-> n, k |-> k, p |-> p, d |-> 1, tr |-> 0, bc |-> bc, hlen |-> 0, flen |-> 0]
S(n) == <<"S", n, 0>>
VARIABLES pc, flags, variant
Init == pc = "pick" /\ flags = [i \in 1..8 |-> ""] /\ variant = "plain"
Pick == /\ pc = "pick"
        /\ \E var \in {"plain", "cone", "body", "cyl"}, F \in SUBSET (1..8), kind \in [1..8 -> {"*", "+"}] :
             /\ Cardinality(F) <= 3
             /\ ~({2, 3} \subseteq F)          \* never both copies of the duplicated plane
             /\ flags' = [i \in 1..8 |-> IF i \in F THEN kind[i] ELSE ""]
             /\ \A i \in 1..8 : i \notin F => kind[i] = "*"     \* canonical: no spurious variety
             /\ variant' = var
        /\ pc' = "emit"
Extra == CASE variant = "cone" -> 5 [] variant = "body" -> 7 [] variant = "cyl" -> 8 [] OTHER -> 0
Cell(n, geom, imp) == [n |-> n, geom |-> geom, imp |-> imp]
Deck ==
  LET c3 == IF Extra = 0 THEN <<"*", S(-1), S(3), S(4)>> ELSE <<"*", S(-1), S(3), S(4), S(-Extra)>>
      rest == IF Extra = 0 THEN <<>> ELSE << Cell(5, <<"*", S(-1), S(3), S(4), S(Extra)>>, 1) >>
  IN [cells |-> << Cell(1, <<"*", S(-1), S(-2)>>, 1), Cell(2, <<"*", S(-1), S(3), S(-4)>>, 1),
                   Cell(3, c3, 1), Cell(4, S(1), 0) >> \o rest,
      surfs |-> << Card(1, "so", <<4>>, flags[1]), Card(2, "px", <<0>>, flags[2]), Card(3, "px", <<0>>, flags[3]),
                   Card(4, "pz", <<1>>, flags[4]), Card(5, "kz", <<0, 1, 1>>, flags[5]),
                   Card(6, "py", <<3>>, flags[6]), Card(7, "rpp", <<1, 2, -1, 1, 2, 3>>, flags[7]),
                   Card(8, "c/z", <<0, 0, 1>>, flags[8]) >>,
      variant |-> variant]
Emit == pc = "emit" /\ PrintT(ToJson(Deck)) /\ pc' = "done" /\ UNCHANGED <<flags, variant>>
Next == Pick \/ Emit
=============================================================================
