------------------------------ MODULE GenSurf ------------------------------
(***************************************************************************)
(* Generator of elementary surface cards (C02, and the carriers of C04):   *)
(* every mnemonic x an integer/rational parameter grid chosen to cover the *)
(* case splits of the converter (axis classification, 4- vs 9-entry P with *)
(* the D=0 / C=0 / B=0 orientation tie-breaks, sheet selectors, SQ with    *)
(* either sign of G, elliptic tori, point-defined X/Y/Z surfaces opening   *)
(* either way).  Lvl = 1: small grid (exhaustive in quick); Lvl = 2: large *)
(* grid (exhaustive in thorough, -simulate in quick).                      *)
(***************************************************************************)
EXTENDS McnpSurf, TLC, Json

CONSTANT Lvl

Card(k, p, d) == [n |-> 1, k |-> k, p |-> p, d |-> d, tr |-> 0, bc |-> "", hlen |-> 0, flen |-> 0]

C1 == IF Lvl = 1 THEN {-1, 2} ELSE {-2, -1, 0, 1, 2}             \* centre coordinates
C0 == IF Lvl = 1 THEN {0, 1} ELSE {-2, 0, 1}
R1 == IF Lvl = 1 THEN {2} ELSE {1, 2, 3}                        \* radii
PC == IF Lvl = 1 THEN {-1, 0, 2} ELSE {-2, -1, 0, 1, 2}         \* plane coefficients
T2 == IF Lvl = 1 THEN {<<1, 1>>, <<1, 4>>} ELSE {<<1, 1>>, <<1, 4>>, <<3, 1>>, <<4, 1>>, <<9, 4>>}  \* t^2 = num/den
SH == {-1, 0, 1}
Pts == IF Lvl = 1 THEN { <<0,0,0>>, <<1,0,0>>, <<0,1,1>>, <<1,1,0>>, <<-1,2,0>>, <<0,0,2>>, <<1,1,5>> }
       ELSE { <<x, y, z>> : x \in {-1, 0, 1}, y \in {-1, 0, 2}, z \in {0, 1} } \cup { <<1,1,5>>, <<0,3,0>>, <<1,0,1>> }
NonCollinear(a, b, c) == Cross(Sub(a, b), Sub(a, c)) # <<0, 0, 0>>

Kinds == {"px","py","pz","p4","p9","so","s","sx","sy","sz","cx","cy","cz","c/x","c/y","c/z",
          "kx","ky","kz","k/x","k/y","k/z","sq","gq","tx","ty","tz","x","y","z"}

(* cone cards: params scaled by the denominator d of t^2 (all parameters are p/d) *)
ConeCards(k) ==
  IF k \in {"kx","ky","kz"}
  THEN { Card(k, IF sh = 0 THEN <<c * t[2], t[1]>> ELSE <<c * t[2], t[1], sh>>, t[2]) : c \in C1, t \in T2, sh \in SH }
  ELSE { Card(k, IF sh = 0 THEN <<c[1]*t[2], c[2]*t[2], c[3]*t[2], t[1]>>
                 ELSE <<c[1]*t[2], c[2]*t[2], c[3]*t[2], t[1], sh>>, t[2])
         : c \in { <<a, b, e>> : a \in C1, b \in C0, e \in C0 }, t \in T2, sh \in SH }

Cards(k) ==
  CASE k \in {"px","py","pz"} -> { Card(k, <<v>>, d) : v \in -3..3, d \in {1, 2} }
    [] k = "p4" -> { Card("p", <<a, b, c, dd>>, 1) : a \in PC, b \in PC, c \in PC, dd \in {-2, 0, 1, 3} } \
                   { Card("p", <<0, 0, 0, dd>>, 1) : dd \in {-2, 0, 1, 3} }
    [] k = "p9" -> { Card("p", t[1] \o t[2] \o t[3], 1)
                     : t \in { tt \in Pts \X Pts \X Pts : NonCollinear(tt[1], tt[2], tt[3]) } }
    [] k = "so" -> { Card(k, <<r>>, d) : r \in R1 \cup {5}, d \in {1, 2} }
    [] k = "s"  -> { Card(k, <<a, b, c, r>>, 1) : a \in C1, b \in C0, c \in C1, r \in R1 }
    [] k \in {"sx","sy","sz"} -> { Card(k, <<a, r>>, 1) : a \in C1 \cup {0}, r \in R1 }
    [] k \in {"cx","cy","cz"} -> { Card(k, <<r>>, d) : r \in R1 \cup {3}, d \in {1, 2} }
    [] k \in {"c/x","c/y","c/z"} -> { Card(k, <<a, b, r>>, 1) : a \in C1, b \in C1 \cup {0}, r \in R1 }
    [] k \in {"kx","ky","kz","k/x","k/y","k/z"} -> ConeCards(k)
    [] k = "sq" -> { Card(k, <<a, b, c, dd, 0, e, g, x, 0, z>>, 1)
                     : a \in {1, 2}, b \in {0, 1}, c \in {-1, 1}, dd \in {0, 1}, e \in {0, -1},
                       g \in {-4, -1, 0, 2}, x \in C0, z \in {0, 1} }
    [] k = "gq" -> { Card(k, <<a, b, c, dd, e, 0, g, 0, j, kk>>, 1)
                     : a \in {1, 2}, b \in {-1, 0, 1}, c \in {0, 1}, dd \in {0, 1}, e \in {0, -1},
                       g \in {0, 2}, j \in {-1, 0}, kk \in {-4, -1, 3} }
                   \cup { Card(k, <<1, b, c, 1, e, 2, 0, 1, j, kk>>, 1)      \* all of xy, yz, zx and x, y, z present
                          : b \in {-1, 1}, c \in {0, 1}, e \in {0, -1}, j \in {-1, 0}, kk \in {-4, 3} }
    [] k \in {"tx","ty","tz"} -> { Card(k, <<x, y, 0, a, b, c>>, 1)
                                   : x \in C0, y \in {0, -1}, a \in {3, 4}, b \in {1, 2}, c \in {1, 2} }
    [] k \in {"x","y","z"} ->
         { Card(k, <<a, r>>, 1) : a \in C1, r \in {0, 2} }
         \cup { Card(k, <<a1, r1, a2, r2>>, 1) : a1 \in C1, a2 \in C1 \cup {3}, r1 \in {0, 1, 2}, r2 \in {1, 2, 3} }

(* admissibility: what MCNP accepts (non-degenerate surfaces) *)
Admissible(c) ==
  /\ c.k \in {"x","y","z"} /\ Len(c.p) = 4 =>
        (* two distinct points; not both on the axis; a cone must not have its apex between the points *)
        /\ <<c.p[1], c.p[2]>> # <<c.p[3], c.p[4]>>
        /\ ~(c.p[2] = 0 /\ c.p[4] = 0)
  /\ c.k = "gq" => \E i \in 1..9 : c.p[i] # 0
  /\ c.k = "sq" => TRUE

VARIABLES pc, kind, card
Init == pc = "kind" /\ kind = "" /\ card = Card("px", <<0>>, 1)
Choose == pc = "kind" /\ \E k \in Kinds : kind' = k /\ pc' = "card" /\ UNCHANGED card
Pick == pc = "card" /\ \E c \in { x \in Cards(kind) : Admissible(x) } : card' = c /\ pc' = "emit" /\ UNCHANGED kind
Emit == pc = "emit" /\ PrintT(ToJson([card |-> card, gen |-> kind,
                                       poly |-> IsPolynomial(card), onesheet |-> IsOneSheet(card)]))
        /\ pc' = "done" /\ UNCHANGED <<kind, card>>
Next == Choose \/ Pick \/ Emit
=============================================================================
