----------------------------- MODULE TraceCompo -----------------------------
(***************************************************************************)
(* C10: the COMPOSITION block written by the real converter for a material *)
(* card and a cell density must be the one Material!Expected prescribes:   *)
(* same nuclide names in the same order, same kind of block, NB_ATOM flag, *)
(* and exactly the expected rational amounts (the adapter rationalises the *)
(* written decimal numbers; <<0, 0>> marks a number that is not rational   *)
(* within 1e-12).                                                          *)
(***************************************************************************)
EXTENDS Material, Json, IOUtils
BlockTraces(b) == JsonDeserialize(IOEnv.TRACE_DIR \o "/b" \o ToString(b) \o ".json")
NB == 64
Verdict(r) ==
  LET e == Expected(r.card, r.rho) IN
  IF r.other_rejected THEN (IF r.result = "error" THEN "ok" ELSE "mixed_signs_accepted")     \* the other card of the deck mixes signs
  ELSE IF e.outcome = "rejected" THEN (IF r.result = "error" /\ r.diag THEN "ok" ELSE IF r.result = "error" THEN "rejected_by_accident" ELSE "mixed_signs_accepted")
  ELSE IF e.outcome = "unsupported" THEN "ok"
  ELSE IF r.result # "ok" THEN "crash"
  ELSE IF r.found # 1 THEN "composition_count"
  ELSE IF r.type # e.type THEN "wrong_block_type"
  ELSE IF r.names # e.names THEN "wrong_nuclides"
  ELSE IF e.type = "DENSITY" /\ r.nb_atom # e.nb_atom THEN "wrong_nb_atom_flag"
  ELSE IF e.type = "DENSITY" /\ ~REq(r.dens, e.dens) THEN "wrong_density_value"
  ELSE IF \E i \in 1..Len(e.values) : r.values[i][2] = 0 \/ ~REq(r.values[i], e.values[i]) THEN "wrong_amounts"
  ELSE IF ~r.m0 \/ r.declared # r.nwritten THEN "block_structure"
  ELSE "ok"
BlockVerdict(b) ==
  LET tr == BlockTraces(b)
      vd == TLCEval([i \in 1..Len(tr) |-> Verdict(tr[i])])
  IN [block |-> b, n |-> Len(tr), bad |-> { <<tr[i].tid, vd[i]>> : i \in { j \in 1..Len(tr) : vd[j] # "ok" } }]
VARIABLE blk
Init == blk = 0
Pick == blk = 0 /\ \E b \in 1..NB : blk' = -b
Check == blk < 0 /\ PrintT(ToJson(BlockVerdict(-blk))) /\ blk' = -blk
Next == Pick \/ Check
=============================================================================
