------------------------------ MODULE GenBool ------------------------------
(***************************************************************************)
(* Generator of Boolean decks (C01, C08, C12, C13): a deck is a priority   *)
(* partition  c1 = e1, c2 = e2 #1, .., c(k-1) = e(k-1) #1 .. #(k-2),       *)
(* ck = #1 .. #(k-1)  -- always a partition of space, complement-heavy --  *)
(* whose e_i are arbitrary trees over a palette of surface cards (planes,  *)
(* spheres, cylinders, a general plane, a one-sheet cone and a macrobody   *)
(* with facets = surface collections, duplicate surfaces, the helper-plane *)
(* look-alikes PX 1 / PX -1) and over #j references to earlier cells.      *)
(* Two-level choice (kind, then parameter) keeps -simulate from drowning   *)
(* in leaf choices.                                                        *)
(***************************************************************************)
EXTENDS Expr, Json

CONSTANTS MaxLeaves, MaxWraps, MaxCells

Card(n, k, p) == [n |-> n, k |-> k, p |-> p, d |-> 1, tr |-> 0, bc |-> "", hlen |-> 0, flen |-> 0]
Palette == << Card(1, "px", <<-1>>), Card(2, "px", <<1>>), Card(3, "py", <<0>>), Card(4, "pz", <<2>>),
              Card(5, "so", <<3>>), Card(6, "s", <<1, 0, 0, 2>>), Card(7, "c/z", <<1, -1, 2>>),
              Card(8, "p", <<1, 1, 0, 1>>), Card(9, "kz", <<0, 1, 1>>),
              Card(10, "rpp", <<-2, 2, -2, 2, -1, 3>>), Card(11, "px", <<1>>),
              Card(12, "p", <<1, 0, 0, -1>>), Card(13, "cz", <<2>>), Card(14, "py", <<0>>),
              (* the plane of card 8 and the plane of card 3 written with the opposite normal: same locus, opposite sense *)
              Card(15, "p", <<-1, -1, 0, -1>>), Card(16, "p", <<0, -2, 0, 0>>),
              (* px -1 (card 1) and px -2: -1.0 and -2.0 have the same hash in CPython; they are two surfaces *)
              Card(17, "px", <<-2>>) >>
SurfLeaves == { <<"S", s * n, 0>> : s \in {-1, 1}, n \in 1..Len(Palette) }
              \cup { <<"S", s * 10, f>> : s \in {-1, 1}, f \in 1..6 }

VARIABLES pc, kind, cells, stack, nleaf, nwrap
vars == <<pc, kind, cells, stack, nleaf, nwrap>>

Init == pc = "kind" /\ kind = "" /\ cells = <<>> /\ stack = <<>> /\ nleaf = 0 /\ nwrap = 0

(* "dup": two cards of one plane in one intersection (the region is a half-space or - opposite senses -  *)
(* empty, which the converter can only see after de-duplication); "helper": the look-alikes of the union *)
(* helper planes PLANEX 1 / PLANEX -1                                                                     *)
DupPairs == { <<2, 11>>, <<11, 2>>, <<3, 14>>, <<14, 3>>, <<1, 12>>, <<12, 1>> }
Kinds == { k \in {"push", "comb", "wrap", "close", "dup", "helper"} :
             \/ k = "push" /\ nleaf < MaxLeaves
             \/ k = "dup" /\ nleaf + 2 <= MaxLeaves
             \/ k = "helper" /\ nleaf < MaxLeaves
             \/ k = "comb" /\ Len(stack) >= 2
             \/ k = "wrap" /\ Len(stack) >= 1 /\ nwrap < MaxWraps
             \/ k = "close" /\ Len(stack) = 1 }
ChooseKind == /\ pc = "kind" /\ \E k \in Kinds : kind' = k
              /\ pc' = "apply" /\ UNCHANGED <<cells, stack, nleaf, nwrap>>

Leaves == SurfLeaves \cup { <<"C", j>> : j \in 1..Len(cells) }
Push == /\ kind = "push" /\ \E l \in Leaves : stack' = Append(stack, l)
        /\ nleaf' = nleaf + 1 /\ pc' = "kind" /\ UNCHANGED <<cells, nwrap>>
Dup == /\ kind = "dup"
       /\ \E pr \in DupPairs, sa \in {-1, 1}, sb \in {-1, 1} :
            stack' = Append(stack, <<"*", <<"S", sa * pr[1], 0>>, <<"S", sb * pr[2], 0>> >>)
       /\ nleaf' = nleaf + 2 /\ pc' = "kind" /\ UNCHANGED <<cells, nwrap>>
Helper == /\ kind = "helper" /\ \E n \in {1, 2, 11, 12}, sg \in {-1, 1} : stack' = Append(stack, <<"S", sg * n, 0>>)
          /\ nleaf' = nleaf + 1 /\ pc' = "kind" /\ UNCHANGED <<cells, nwrap>>
Comb == /\ kind = "comb"
        /\ \E op \in {"*", ":"} :
             stack' = Append(SubSeq(stack, 1, Len(stack) - 2), <<op, stack[Len(stack) - 1], stack[Len(stack)]>>)
        /\ pc' = "kind" /\ UNCHANGED <<cells, nleaf, nwrap>>
Wrap == /\ kind = "wrap" /\ stack' = [stack EXCEPT ![Len(stack)] = <<"N", stack[Len(stack)]>>]
        /\ nwrap' = nwrap + 1 /\ pc' = "kind" /\ UNCHANGED <<cells, nleaf>>
Close == /\ kind = "close"
         /\ \E imp \in {0, 1}, last \in BOOLEAN :
              /\ cells' = Append(cells, [geom |-> stack[1], imp |-> imp])
              /\ pc' = IF last \/ Len(cells) + 2 >= MaxCells THEN "final" ELSE "kind"
         /\ stack' = <<>> /\ nleaf' = 0 /\ nwrap' = 0
Apply == pc = "apply" /\ kind' = "" /\ (Push \/ Dup \/ Helper \/ Comb \/ Wrap \/ Close)

RefsBefore(i) == [j \in 1..(i - 1) |-> <<"C", j>>]
FullGeom(i) == IF i = 1 THEN cells[1].geom ELSE <<"*", cells[i].geom>> \o RefsBefore(i)
RECURSIVE SurfNums(_)
SurfNums(t) == CASE t[1] = "S" -> {Abs(t[2])}
                 [] t[1] = "C" -> {}
                 [] t[1] = "N" -> SurfNums(t[2])
                 [] OTHER -> UNION { SurfNums(t[i]) : i \in 2..Len(t) }
Final == /\ pc = "final"
         /\ \E imp \in {0, 1} :
              LET k == Len(cells) + 1
                  rest == IF k = 2 THEN <<"C", 1>> ELSE <<"*">> \o RefsBefore(k)
                  used == UNION { SurfNums(cells[i].geom) : i \in 1..Len(cells) }
                  deck == [cells |-> [i \in 1..k |-> IF i < k
                                          THEN [n |-> i, geom |-> FullGeom(i), imp |-> cells[i].imp]
                                          ELSE [n |-> k, geom |-> rest, imp |-> imp]],
                           surfs |-> SelectSeq(Palette, LAMBDA c : c.n \in used)]
              IN PrintT(ToJson(deck))
         /\ pc' = "done" /\ UNCHANGED <<kind, cells, stack, nleaf, nwrap>>
Next == ChooseKind \/ Apply \/ Final
Spec == Init /\ [][Next]_vars
=============================================================================
