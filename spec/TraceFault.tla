----------------------------- MODULE TraceFault -----------------------------
(***************************************************************************)
(* C17: each recorded run of an injected deck must end in an error that    *)
(* names the problem (diag: raised by a raise statement of the repo's own  *)
(* sources, not an incidental interpreter error), and the un-injected      *)
(* control must convert.                                                   *)
(***************************************************************************)
EXTENDS Integers, Sequences, FiniteSets, TLC, Json, IOUtils
BlockTraces(b) == JsonDeserialize(IOEnv.TRACE_DIR \o "/b" \o ToString(b) \o ".json")
NB == 64
Verdict(r) ==
  IF r.control # "ok" THEN "control_failed"
  ELSE IF r.expected = "error" /\ r.result = "ok" THEN "finished_normally"
  ELSE IF r.expected = "error" /\ ~r.diag THEN "incidental_error"
  ELSE "ok"
BlockVerdict(b) ==
  LET tr == BlockTraces(b)
      vd == TLCEval([i \in 1..Len(tr) |-> Verdict(tr[i])])
  IN [block |-> b, n |-> Len(tr), bad |-> { <<tr[i].tid, vd[i]>> : i \in { j \in 1..Len(tr) : vd[j] # "ok" } }]
VARIABLE blk
Init == blk = 0
Pick == blk = 0 /\ \E b \in 1..NB : blk' = -b
Check == blk < 0 /\ PrintT(ToJson(BlockVerdict(-blk))) /\ blk' = -blk
Next == Pick \/ Check
=============================================================================
