----------------------------- MODULE Numberings -----------------------------
(***************************************************************************)
(* "For all decks" includes all ways of NUMBERING a deck: the meaning of a *)
(* deck does not depend on the numbers chosen for cells, surfaces and      *)
(* universes, but the converter allocates its own numbers next to them     *)
(* (free cell key = largest cell number + 1, free surface key, implicit    *)
(* surfaces 1000*cell+surface of cells with TRCL, volumes invented for     *)
(* unions, collections, fills and lattice elements), so collisions depend  *)
(* on the numbering alone.  This module defines a family of injective maps *)
(*      n |-> base + stride * n        (increasing)                        *)
(*      n |-> base + stride * (K - n)  (decreasing, K above every number)  *)
(* for the three kinds of number, and, for a deck view, which members of   *)
(* the family are admissible:  all numbers positive and distinct; for a    *)
(* deck in which a cell carries a TRCL the numbers of cells and surfaces   *)
(* stay below 1000 (MCNP's own rule for 1000*cell+surface); no implicit    *)
(* number 1000*cell+surface equals the number of a surface card.           *)
(* The harness renumbers the abstract deck with each chosen member and the *)
(* usual validators (owner, FileDefects) judge the conversion.             *)
(*                                                                         *)
(* deck view: [cells : Seq([n, trcl : BOOLEAN, surfs : set of numbers]),   *)
(*             surfs : Seq(n), univs : Seq(n)]                             *)
(***************************************************************************)
EXTENDS Integers, Sequences, FiniteSets, TLC, Json, IOUtils

BlockDecks(b) == JsonDeserialize(IOEnv.TRACE_DIR \o "/b" \o ToString(b) \o ".json")
NB == 64

CellBases == {0, 5, 989, 994, 9990}
CellStrides == {1, 3, 1000}
SurfBases == {0, 7, 985, 992}
SurfStrides == {1, 13}
UnivBases == {0, 40, 990}
Dirs == {1, -1}
K == 200        \* above every number the generators use

Map(base, stride, dir, n) == IF dir = 1 THEN base + stride * n ELSE base + stride * (K - n)
ToSet(s) == { s[i] : i \in 1..Len(s) }

Admissible(d, p) ==
  LET cm(n) == Map(p.cb, p.cs, p.cd, n)
      sm(n) == Map(p.sb, p.ss, p.sd, n)
      cnums == { cm(d.cells[i].n) : i \in 1..Len(d.cells) }
      snums == { sm(n) : n \in ToSet(d.surfs) }
      anytrcl == \E i \in 1..Len(d.cells) : d.cells[i].trcl
      implicit == UNION { { 1000 * cm(d.cells[i].n) + sm(s) : s \in ToSet(d.cells[i].surfs) }
                          : i \in { j \in 1..Len(d.cells) : d.cells[j].trcl } }
  IN /\ \A x \in cnums \cup snums : x >= 1 /\ x <= 99999
     /\ Cardinality(cnums) = Len(d.cells)
     /\ Cardinality(snums) = Cardinality(ToSet(d.surfs))
     /\ anytrcl => (\A x \in cnums \cup snums : x <= 999)
     /\ implicit \cap snums = {}
Family == { [cb |-> cb, cs |-> cs, cd |-> cd, sb |-> sb, ss |-> ss, sd |-> sd, ub |-> ub] :
            cb \in CellBases, cs \in CellStrides, cd \in Dirs, sb \in SurfBases, ss \in SurfStrides, sd \in Dirs,
            ub \in UnivBases }
(* identity-like members are of no interest *)
Interesting(p) == ~(p.cb = 0 /\ p.cs = 1 /\ p.cd = 1 /\ p.sb = 0 /\ p.ss = 1 /\ p.sd = 1 /\ p.ub = 0)
BlockNumberings(b) ==
  LET ds == BlockDecks(b)
  IN [block |-> b, n |-> Len(ds),
      maps |-> { [tid |-> ds[i].tid, ok |-> { p \in Family : Interesting(p) /\ Admissible(ds[i].deck, p) }] : i \in 1..Len(ds) }]
VARIABLE blk
Init == blk = 0
Pick == blk = 0 /\ \E b \in 1..NB : blk' = -b
Check == blk < 0 /\ PrintT(ToJson(BlockNumberings(-blk))) /\ blk' = -blk
Next == Pick \/ Check
=============================================================================
