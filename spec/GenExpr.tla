------------------------------ MODULE GenExpr ------------------------------
(***************************************************************************)
(* Generator of cell expressions for C11 (and of the Boolean cores of the  *)
(* decks of C01): a stack machine builds every binary tree with at most    *)
(* MaxLeaves leaves over the leaf alphabet, optionally wrapped in #( ),    *)
(* renders it with minimal or full parentheses and emits the record.       *)
(* TLC also checks, as a design-level invariant, that the reference reader *)
(* of Expr.tla reads every rendered token string back to an equivalent     *)
(* tree (so renderer and reader, both specification text, agree).          *)
(***************************************************************************)
EXTENDS Expr, Json

CONSTANTS MaxLeaves, MaxWraps

Env == << [n |-> 10, geom |-> <<"*", <<"S", -1, 0>>, <<"S", 2, 0>>>>],
          [n |-> 11, geom |-> <<":", <<"C", 10>>, <<"S", 3, 1>>>>] >>
Leaves == { <<"S", 1, 0>>, <<"S", -1, 0>>, <<"S", 2, 0>>, <<"S", -2, 0>>,
            <<"S", 3, 1>>, <<"S", -3, 2>>, <<"C", 10>>, <<"C", 11>> }

VARIABLES pc, stack, nleaf, nwrap, full
vars == <<pc, stack, nleaf, nwrap, full>>

Init == pc = "build" /\ stack = <<>> /\ nleaf = 0 /\ nwrap = 0 /\ full = FALSE

Push == /\ pc = "build" /\ nleaf < MaxLeaves
        /\ \E l \in Leaves : stack' = Append(stack, l)
        /\ nleaf' = nleaf + 1 /\ UNCHANGED <<pc, nwrap, full>>
Combine == /\ pc = "build" /\ Len(stack) >= 2
           /\ \E op \in {"*", ":"} :
                stack' = Append(SubSeq(stack, 1, Len(stack) - 2),
                                <<op, stack[Len(stack) - 1], stack[Len(stack)]>>)
           /\ UNCHANGED <<pc, nleaf, nwrap, full>>
Wrap == /\ pc = "build" /\ Len(stack) >= 1 /\ nwrap < MaxWraps
        /\ stack' = [stack EXCEPT ![Len(stack)] = <<"N", stack[Len(stack)]>>]
        /\ nwrap' = nwrap + 1 /\ UNCHANGED <<pc, nleaf, full>>
Finish == /\ pc = "build" /\ Len(stack) = 1
          /\ \E f \in BOOLEAN : full' = f
          /\ pc' = "emit" /\ UNCHANGED <<stack, nleaf, nwrap>>
Emit == /\ pc = "emit"
        /\ PrintT(ToJson([tree |-> stack[1], toks |-> Render(stack[1], full), full |-> full]))
        /\ pc' = "done" /\ UNCHANGED <<stack, nleaf, nwrap, full>>
Next == Push \/ Combine \/ Wrap \/ Finish \/ Emit
Spec == Init /\ [][Next]_vars

(* design-level properties *)
ReaderAgrees == pc = "emit" => Equivalent(Env, Read(Render(stack[1], full)), stack[1])
DeMorganSound == pc = "emit" =>
    LET e == Elim(Env, stack[1], 8) IN ComplementFree(e) /\ Equivalent(Env, e, stack[1])
=============================================================================
