---------------------------- MODULE TraceMatrix ----------------------------
(***************************************************************************)
(* C04, abbreviated rotation matrices: the matrix returned by the repo's   *)
(* normalize_transform() for a TR card with 9, 6, 5 or 3 supplied entries  *)
(* (J placeholders elsewhere) must be a proper rotation that reproduces    *)
(* every supplied entry (GenTr!IsCompletion, exact rational arithmetic:    *)
(* all entries are numerators over the common denominator r.den).          *)
(***************************************************************************)
EXTENDS Integers, Sequences, FiniteSets, TLC, Json, IOUtils
G == INSTANCE GenTr WITH Lvl <- 1, pc <- "x", rec <- <<>>

BlockTraces(b) == JsonDeserialize(IOEnv.TRACE_DIR \o "/b" \o ToString(b) \o ".json")
NB == 64
Verdict(r) ==
  IF r.result = "error" THEN "crash"
  ELSE IF ~r.unique THEN (IF G!IsCompletionApprox(r.Ms, 10000, r.gs) THEN "ok" ELSE "notcompletion")
  ELSE IF r.result = "irrational" THEN "notrational"
  ELSE IF ~G!IsRotation(r.M, r.den) THEN "notrotation"
  ELSE IF ~G!IsCompletion(r.M, r.den, r.given) THEN "entrychanged"
  ELSE "ok"
BlockVerdict(b) ==
  LET tr == BlockTraces(b)
      vd == TLCEval([i \in 1..Len(tr) |-> Verdict(tr[i])])
  IN [block |-> b, n |-> Len(tr), bad |-> { <<tr[i].tid, vd[i]>> : i \in { j \in 1..Len(tr) : vd[j] # "ok" } }]
VARIABLE blk
Init == blk = 0
Pick == blk = 0 /\ \E b \in 1..NB : blk' = -b
Check == blk < 0 /\ PrintT(ToJson(BlockVerdict(-blk))) /\ blk' = -blk
Next == Pick \/ Check
=============================================================================
