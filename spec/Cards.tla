------------------------------- MODULE Cards -------------------------------
(***************************************************************************)
(* The text front end as a line-by-line machine (C14).                     *)
(*                                                                         *)
(* A deck is a sequence of lines.  A line is a record                      *)
(*   [kind, lead, toks, seps, amp, dollar, upper]                          *)
(*   kind  : "text" | "comment" | "blank"                                  *)
(*   lead  : leading white space, a sequence of "b" (blank) / "t" (tab)    *)
(*   toks  : tokens [id, w, alts, rep, ok]: id = canonical text (what the  *)
(*           token means), w = how it is spelled now, alts = equivalent    *)
(*           spellings, rep = n for an "nR" repeat token (0 otherwise),    *)
(*           ok = the card may be split before this token                  *)
(*   seps  : separators between tokens (sequences of "b"/"t", non-empty)   *)
(*   amp   : the line ends with "&";  dollar: it carries a "$ comment"     *)
(*   upper : the line is written in upper case                             *)
(*                                                                         *)
(* Read is the REFERENCE reader (MCNP manual, ch. 3 "Card format"):        *)
(* tabs expand to the next multiple of 8; a line whose first non-blank     *)
(* character is a "c" in columns 1-5 followed by a blank is a comment;     *)
(* a line with five or more leading blanks, or following a line ending in  *)
(* "&", continues the previous card; "$" starts an in-line comment; blank  *)
(* lines delimit blocks; an optional message block comes first; case is    *)
(* irrelevant; nR repeats the preceding entry n times.                     *)
(* The rewrite actions below are the respellings C14 speaks of; TLC checks *)
(* that every one of them preserves Read (SameMeaning), so that the        *)
(* equivalence of the explored texts is established by the specification's *)
(* reader, not assumed.                                                    *)
(* Anchors: MIP/mip/blocks.py, cards.py, main.py (Card.content), datacard. *)
(***************************************************************************)
EXTENDS Integers, Sequences, FiniteSets, TLC, Json, IOUtils

Seed == JsonDeserialize(IOEnv.SEED_FILE)        \* the canonical deck, tokenised by the harness
MaxDepth == IF "MAXDEPTH" \in DOMAIN IOEnv THEN (IF IOEnv.MAXDEPTH = "1" THEN 1 ELSE IF IOEnv.MAXDEPTH = "2" THEN 2 ELSE IF IOEnv.MAXDEPTH = "3" THEN 3 ELSE 6) ELSE 2

(* width of leading white space with 8-column tab stops *)
RECURSIVE LeadW(_, _, _)
LeadW(lead, i, w) == IF i > Len(lead) THEN w
                     ELSE LeadW(lead, i + 1, IF lead[i] = "t" THEN 8 * ((w \div 8) + 1) ELSE w + 1)
Width(l) == LeadW(l.lead, 1, 0)
IsBlank(l) == l.kind = "blank"
IsComment(l) == l.kind = "comment" /\ Width(l) <= 4
(* previous line that is not a comment *)
RECURSIVE PrevText(_, _)
PrevText(L, i) == IF i = 0 THEN 0 ELSE IF L[i].kind = "comment" THEN PrevText(L, i - 1) ELSE i
IsCont(L, i) == /\ L[i].kind = "text"
                /\ \/ Width(L[i]) >= 5
                   \/ LET p == PrevText(L, i - 1) IN p > 0 /\ L[p].kind = "text" /\ L[p].amp

(* expansion of data-card shorthand in the canonical reading (MCNP manual: nR repeats the preceding  *)
(* entry n times, nI inserts n linearly interpolated entries between its neighbours, xM multiplies    *)
(* the preceding entry by x, nJ jumps over n entries, which keep their default value - recorded in    *)
(* the token as .exp, because the default depends on the card)                                        *)
RECURSIVE Expand(_, _, _, _)
Expand(ts, i, acc, lastval) ==
  IF i > Len(ts) THEN acc
  ELSE LET t == ts[i] IN
       CASE t.kind = "r" -> Expand(ts, i + 1, acc \o [k \in 1..t.n |-> acc[Len(acc)]], lastval)
         [] t.kind = "m" -> Expand(ts, i + 1, Append(acc, ToString(lastval * t.n)), lastval * t.n)
         [] t.kind = "h" -> Expand(ts, i + 1, Append(acc, ToString(lastval \div t.n)), lastval \div t.n)   \* a real factor: 0.5m
         [] t.kind = "i" -> LET hi == ts[i + 1].val IN
                            Expand(ts, i + 1, acc \o [k \in 1..t.n |-> ToString(lastval + (k * (hi - lastval)) \div (t.n + 1))],
                                   lastval)
         [] t.kind = "j" -> Expand(ts, i + 1, acc \o t.exp, lastval)
         [] OTHER -> Expand(ts, i + 1, Append(acc, t.id), t.val)
Ids(l) == Expand(l.toks, 1, <<>>, 0)
Ws(l) == [k \in 1..Len(l.toks) |-> l.toks[k].w]

(* cards of a deck: sequence of [block, ids, ws]; blocks counted by blank lines after the message block *)
RECURSIVE ReadFrom(_, _, _, _, _)
ReadFrom(L, i, block, cards, msg) ==
  IF i > Len(L) THEN cards
  ELSE IF IsBlank(L[i]) THEN ReadFrom(L, i + 1, block + 1, cards, FALSE)
  ELSE IF msg THEN ReadFrom(L, i + 1, block, cards, msg)              \* message block: ignored
  ELSE IF L[i].kind = "comment" THEN ReadFrom(L, i + 1, block, cards, msg)
  ELSE IF IsCont(L, i) /\ cards # <<>> /\ cards[Len(cards)].block = block
       THEN ReadFrom(L, i + 1, block,
                     [cards EXCEPT ![Len(cards)] = [@ EXCEPT !.toks = @ \o L[i].toks]], msg)
  ELSE ReadFrom(L, i + 1, block, Append(cards, [block |-> block, toks |-> L[i].toks]), msg)
HasMessage(L) == Len(L) >= 1 /\ L[1].kind = "text" /\ Len(L[1].toks) >= 1 /\ L[1].toks[1].id = "message:"
(* the first card of block 0 is the title line: it is not a card *)
Cards(L) == Tail(ReadFrom(L, 1, IF HasMessage(L) THEN -1 ELSE 0, <<>>, HasMessage(L)))
Read(L) == LET cs == Cards(L) IN [k \in 1..Len(cs) |-> [block |-> cs[k].block, ids |-> Expand(cs[k].toks, 1, <<>>, 0)]]
(* the spelled tokens of each card, for comparison with the real get_cards() / Card.content() *)
ReadSpelled(L) == LET cs == Cards(L) IN [k \in 1..Len(cs) |-> [j \in 1..Len(cs[k].toks) |-> cs[k].toks[j].w]]

(***************************************************************************)
(* The machine: rewrites of the text.                                      *)
(***************************************************************************)
VARIABLES lines, depth, last
vars == <<lines, depth, last>>
Init == lines = Seed /\ depth = 0 /\ last = "seed"

TextIdx == { i \in 1..Len(lines) : lines[i].kind = "text" }
CardIdx == { i \in TextIdx : ~lines[i].frozen }            \* not the title line, not the message block
Step(name) == depth < MaxDepth /\ depth' = depth + 1 /\ last' = name

ChangeCase == /\ Step("case")
              /\ \E i \in CardIdx : lines' = [lines EXCEPT ![i].upper = ~@]
WidenBlanks == /\ Step("blanks")
               /\ \E i \in CardIdx : \E j \in 1..Len(lines[i].seps), s \in {<<"b", "b", "b">>, <<"t">>, <<"b", "t">>} :
                    lines' = [lines EXCEPT ![i].seps[j] = s]
(* split line i before token j: the tail becomes a continuation line *)
SplitAt(i, j, lead, amp) ==
  LET l == lines[i]
      head == [l EXCEPT !.toks = SubSeq(l.toks, 1, j - 1), !.seps = SubSeq(l.seps, 1, j - 2), !.amp = amp]
      tail == [l EXCEPT !.toks = SubSeq(l.toks, j, Len(l.toks)), !.seps = SubSeq(l.seps, j, Len(l.seps)),
                        !.lead = lead, !.dollar = FALSE]
  IN SubSeq(lines, 1, i - 1) \o <<head, tail>> \o SubSeq(lines, i + 1, Len(lines))
SplitIndent == /\ Step("indent")
               /\ \E i \in CardIdx : \E j \in 2..Len(lines[i].toks),
                     lead \in { <<"b","b","b","b","b">>, <<"t">>, <<"b","b","t">>, <<"b","b","b","b","b","b","b","b","b">> } :
                    lines[i].toks[j].ok /\ ~lines[i].amp /\ lines' = SplitAt(i, j, lead, FALSE)
SplitAmp == /\ Step("amp")
            /\ \E i \in CardIdx : \E j \in 2..Len(lines[i].toks), lead \in { <<>>, <<"b","b">>, <<"b","b","b","b","b","b">> } :
                 lines[i].toks[j].ok /\ ~lines[i].amp /\ lines' = SplitAt(i, j, lead, TRUE)
CommentLine(lead, up) == [kind |-> "comment", lead |-> lead, toks |-> <<>>, seps |-> <<>>, amp |-> FALSE,
                          dollar |-> FALSE, upper |-> up, frozen |-> TRUE]
InsertComment == /\ Step("comment")
                 /\ \E i \in { k \in CardIdx : ~IsCont(lines, k) \/ TRUE } \cup {Len(lines) + 1} : \E lead \in { <<>>, <<"b">>, <<"b","b","b","b">> }, up \in BOOLEAN :
                      (* not right after the title-less start of a block is fine; never inside the message block *)
                      lines' = SubSeq(lines, 1, i - 1) \o <<CommentLine(lead, up)>> \o SubSeq(lines, i, Len(lines))
(* a card may start anywhere in columns 1-5: up to four leading blanks do not make it a continuation *)
IndentCard == /\ Step("cardindent")
              /\ \E i \in CardIdx : \E lead \in { <<"b">>, <<"b","b","b">>, <<"b","b","b","b">> } :
                   /\ ~IsCont(lines, i) /\ lines[i].lead = <<>>
                   /\ lines' = [lines EXCEPT ![i].lead = lead]
AddDollar == /\ Step("dollar")
             /\ \E i \in CardIdx : ~lines[i].dollar /\ lines' = [lines EXCEPT ![i].dollar = TRUE]
MessageLine == [kind |-> "text", lead |-> <<>>, amp |-> FALSE, dollar |-> FALSE, upper |-> FALSE, frozen |-> TRUE,
                seps |-> << <<"b">> >>,
                toks |-> << [id |-> "message:", w |-> "message:", alts |-> <<>>, rep |-> 0, ok |-> FALSE, val |-> 0,
                             kind |-> "", n |-> 0, exp |-> <<>>, jok |-> FALSE, arr |-> FALSE],
                            [id |-> "outp=x", w |-> "outp=x", alts |-> <<>>, rep |-> 0, ok |-> FALSE, val |-> 0,
                             kind |-> "", n |-> 0, exp |-> <<>>, jok |-> FALSE, arr |-> FALSE] >>]
BlankLine == [kind |-> "blank", lead |-> <<>>, toks |-> <<>>, seps |-> <<>>, amp |-> FALSE, dollar |-> FALSE, upper |-> FALSE,
              frozen |-> TRUE]
AddMessage == /\ Step("message") /\ ~HasMessage(lines)
              /\ lines' = <<MessageLine, BlankLine>> \o lines
Respell == /\ Step("number")
           /\ \E i \in CardIdx : \E j \in 1..Len(lines[i].toks) : \E a \in 1..Len(lines[i].toks[j].alts) :
                lines' = [lines EXCEPT ![i].toks[j].w = lines[i].toks[j].alts[a]]
(* shorthand: contract entries of an IMP data card (integers) or the last row of a TR card *)
Short(kind, n, w, exp) == [id |-> w, w |-> w, alts |-> <<>>, rep |-> 0, ok |-> FALSE, val |-> 0, kind |-> kind, n |-> n, exp |-> exp,
                           jok |-> FALSE, arr |-> FALSE]
Plain(t) == t.kind = "" /\ t.w = t.id
Contract == /\ Step("repeat")
            /\ \E i \in CardIdx : \E j \in 2..Len(lines[i].toks) :
                 LET l == lines[i] IN
                 /\ ((l.toks[1].id = "imp:n" /\ j >= 3) \/ (l.toks[j].arr /\ l.toks[j - 1].arr))
                 /\ Plain(l.toks[j]) /\ Plain(l.toks[j - 1]) /\ l.toks[j].id = l.toks[j - 1].id
                 /\ lines' = [lines EXCEPT ![i].toks[j] = Short("r", 1, "1r", <<>>)]
(* three equal entries in a row -> "x 2r" (also in a FILL array on a cell card: tokens flagged arr) *)
Contract2 == /\ Step("repeat2")
             /\ \E i \in CardIdx : \E j \in 4..Len(lines[i].toks) :
                  LET l == lines[i] IN
                  /\ (l.toks[1].id = "imp:n" \/ (l.toks[j].arr /\ l.toks[j - 1].arr /\ l.toks[j - 2].arr))
                  /\ Plain(l.toks[j]) /\ Plain(l.toks[j - 1]) /\ Plain(l.toks[j - 2])
                  /\ l.toks[j].id = l.toks[j - 1].id /\ l.toks[j - 1].id = l.toks[j - 2].id
                  /\ lines' = [lines EXCEPT ![i].toks = SubSeq(l.toks, 1, j - 2) \o << Short("r", 2, "2r", <<>>) >>
                                                          \o SubSeq(l.toks, j + 1, Len(l.toks)),
                                            ![i].seps = SubSeq(l.seps, 1, j - 2) \o SubSeq(l.seps, j, Len(l.seps))]
ContractM == /\ Step("multiply")
             /\ \E i \in CardIdx : \E j \in 3..Len(lines[i].toks) :
                  LET l == lines[i] IN
                  /\ l.toks[1].id = "imp:n"
                  /\ Plain(l.toks[j]) /\ Plain(l.toks[j - 1]) /\ l.toks[j - 1].val > 0 /\ l.toks[j].val = 2 * l.toks[j - 1].val
                  /\ lines' = [lines EXCEPT ![i].toks[j] = Short("m", 2, "2m", <<>>)]
(* the factor of xM is a real number: "2 1" -> "2 0.5m" *)
ContractH == /\ Step("half")
             /\ \E i \in CardIdx : \E j \in 3..Len(lines[i].toks), w \in {"0.5m", ".5m", "5-1m"} :
                  LET l == lines[i] IN
                  /\ l.toks[1].id = "imp:n"
                  /\ Plain(l.toks[j]) /\ Plain(l.toks[j - 1]) /\ l.toks[j].val > 0 /\ l.toks[j - 1].val = 2 * l.toks[j].val
                  /\ lines' = [lines EXCEPT ![i].toks[j] = Short("h", 2, w, <<>>)]
ContractI == /\ Step("interpolate")
             /\ \E i \in CardIdx : \E j \in 3..(Len(lines[i].toks) - 1) :
                  LET l == lines[i] IN
                  /\ l.toks[1].id = "imp:n"
                  /\ Plain(l.toks[j - 1]) /\ Plain(l.toks[j]) /\ Plain(l.toks[j + 1])
                  /\ l.toks[j].val - l.toks[j - 1].val = l.toks[j + 1].val - l.toks[j].val
                  /\ l.toks[j].val # l.toks[j - 1].val
                  /\ lines' = [lines EXCEPT ![i].toks[j] = Short("i", 1, "1i", <<>>)]
(* the last row of the rotation matrix of a TR card may be left to the default (3J) *)
ContractJ == /\ Step("jump")
             /\ \E i \in CardIdx :
                  LET l == lines[i]  n == Len(l.toks) IN
                  /\ n = 13 /\ l.toks[1].jok /\ \A k \in 11..13 : Plain(l.toks[k])
                  /\ lines' = [lines EXCEPT ![i].toks = SubSeq(l.toks, 1, 10)
                                   \o << Short("j", 3, "3j", <<l.toks[11].id, l.toks[12].id, l.toks[13].id>>) >>,
                                            ![i].seps = SubSeq(l.seps, 1, 10)]
Emit == /\ depth >= 1 /\ last # "emitted"
        /\ PrintT(ToJson([lines |-> lines, depth |-> depth, last |-> last, spelled |-> ReadSpelled(lines)]))
        /\ last' = "emitted" /\ UNCHANGED <<lines, depth>>
Rewrite == ChangeCase \/ WidenBlanks \/ SplitIndent \/ SplitAmp \/ InsertComment \/ IndentCard \/ AddDollar \/ AddMessage
           \/ Respell \/ Contract \/ Contract2 \/ ContractM \/ ContractH \/ ContractI \/ ContractJ
Next == (last # "emitted" /\ Rewrite) \/ Emit
Spec == Init /\ [][Next]_vars

(* the rewrites preserve the meaning of the text, by the reference reader *)
SameMeaning == Read(lines) = Read(Seed)
=============================================================================
