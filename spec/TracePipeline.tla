--------------------------- MODULE TracePipeline ---------------------------
(***************************************************************************)
(* Trace validation of recorded executions of the pass pipeline against    *)
(* Pipeline.tla: the hook sink recorded the projected state after each     *)
(* pass; a trace is accepted iff the stage names follow the pipeline's     *)
(* order and every recorded state satisfies the contract of its stage.     *)
(* Verdicts are total: each names the stage and the violated clause.       *)
(***************************************************************************)
EXTENDS Pipeline, Json, IOUtils
BlockTraces(b) == JsonDeserialize(IOEnv.TRACE_DIR \o "/b" \o ToString(b) \o ".json")
NB == 64

StageDefects(D, chains, S) ==
  IF S.kind = "error" THEN { <<S.stage, "projection_error">> }
  ELSE IF S.kind = "parsed" THEN { <<S.stage, d>> : d \in ParsedDefects(D, S) }
  ELSE IF S.kind = "lattice" THEN { <<S.stage, d>> : d \in LatticeDefects(D, S) }
  ELSE IF S.kind = "cells" THEN { <<S.stage, d>> : d \in CellStateDefects(D, chains, S) }
  ELSE { <<S.stage, d>> : d \in VolStateDefects(D, chains, S) }
       \cup (IF S.stage = "dedup" /\ MergeDefects(S) # {} THEN { <<"dedup", "merged_different_surfaces">> } ELSE {})
Verdict(r) ==
  IF r.result # "ok" THEN [tid |-> r.tid, bad |-> {}, nstages |-> 0]
  ELSE LET D == r.deck
           chains == TLCEval([k \in 1..Len(D.pts) |-> Chain(D, D.pts[k])])
           per == UNION { StageDefects(D, chains, r.stages[i]) : i \in 1..Len(r.stages) }
           order == IF OrderOK(r.names, 1, 1) THEN {} ELSE { <<"order", "stage_order">> }
           final == { i \in 1..Len(r.stages) : r.stages[i].stage = "final" }
           writer == IF final = {} THEN { <<"final", "missing">> }
                     ELSE { <<"write", d>> : d \in WriterDefects(D, r.stages[CHOOSE i \in final : TRUE], r.file) }
       IN [tid |-> r.tid, bad |-> per \cup order \cup writer, nstages |-> Len(r.stages)]
BlockVerdict(b) == LET tr == BlockTraces(b)
                   IN [block |-> b, n |-> Len(tr), v |-> { Verdict(tr[i]) : i \in 1..Len(tr) }]
VARIABLE blk
Init == blk = 0
Pick == blk = 0 /\ \E b \in 1..NB : blk' = -b
Check == blk < 0 /\ PrintT(ToJson(BlockVerdict(-blk))) /\ blk' = -blk
Next == Pick \/ Check
=============================================================================
