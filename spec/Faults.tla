------------------------------- MODULE Faults -------------------------------
(***************************************************************************)
(* C17: fault classes as actions on valid decks.  The specification's      *)
(* content is (i) what MCNP admits - the number of entries of every        *)
(* surface mnemonic and macrobody, the facets of every body, the shape of  *)
(* FILL arrays, IMP cards, material cards, --lattice arguments - and (ii)  *)
(* the outcome: a deck or command line outside that set must end in an     *)
(* error that names the problem, never in a finished conversion.           *)
(* State: pc, the chosen fault record; Inject picks (class, site, variant);*)
(* the harness applies it to the base deck of that class and also runs the *)
(* un-injected control, which must convert.                                *)
(***************************************************************************)
EXTENDS FaultTables

Rec(class, site, variant) == [class |-> class, site |-> site, variant |-> variant]
Faults ==
     { Rec("tr_m", s, "-1") : s \in {"trcard", "startrcard", "fill_inline", "starfill_inline", "trcl_inline", "startrcl_inline"} }
  \cup { Rec("lattice_option", "lat", v) : v \in {"absent", "other_cell", "too_few_ranges", "too_many_ranges"} }
  \cup UNION { { Rec("surface_count", k, ToString(n)) : n \in OffCounts(SurfCounts[k]) } : k \in DOMAIN SurfCounts }
  \cup UNION { { Rec("surface_count", "/" \o k, ToString(n)) : n \in OffCounts(SlashCounts[k]) } : k \in DOMAIN SlashCounts }
  \cup UNION { { Rec("body_count", k, ToString(n)) : n \in OffCounts(BodyCounts[k]) } : k \in DOMAIN BodyCounts }
  \cup { Rec("mnemonic", "surface", v) : v \in {"qx", "pw", "sphere", "boxx"} }
  \cup { Rec("facet", k, ToString(BodyFacets[k] + d)) : k \in DOMAIN BodyFacets, d \in {1, 2} }
  \cup { Rec("facet", "so", "2") }
  \cup { Rec("fill_length", "lat", v) : v \in {"one_less", "one_more", "two_more"} }
  \cup { Rec("imp_length", "data", v) : v \in {"second_shorter", "second_longer", "shorter_than_cells"} }
  \cup { Rec("mixed_sign", "material", v) : v \in {"+-", "-+", "--+", "+-+", "unused_material"} }
  \cup { Rec("lattice_argument", "cli", v) : v \in {"no_ranges", "four_ranges", "cell_not_int", "bound_not_int", "double_colon", "empty_range"} }

Expected(f) == "error"          \* every fault of the list must stop the run

VARIABLES pc, fault
Init == pc = "inject" /\ fault = Rec("none", "", "")
Inject == pc = "inject" /\ \E f \in Faults : fault' = f /\ pc' = "emit"
Emit == pc = "emit" /\ PrintT(ToJson([fault |-> fault, expected |-> Expected(fault)])) /\ pc' = "done" /\ UNCHANGED fault
Next == Inject \/ Emit
(* the property, stated on recorded outcomes by TraceFault.tla:  Faulty => ~Finished *)
=============================================================================
