------------------------------- MODULE GenImp -------------------------------
(***************************************************************************)
(* Generator for C12: slab decks whose importances come from IMP keywords  *)
(* on the cell cards or from IMP data cards (one per particle type) by     *)
(* cell position, with nR / xM / nI shorthand.  ExpandData is the          *)
(* specification of the shorthand (MCNP manual, data-card shorthand); the  *)
(* importance of a cell is the maximum over the particle types.  A         *)
(* universe may sit between the level-0 cells so that the rank of a cell   *)
(* in the cell block differs from its rank among level-0 cells.            *)
(***************************************************************************)
EXTENDS Integers, Sequences, FiniteSets, TLC, Json

CONSTANTS MaxCells, MaxTokens

(* tokens: <<"v", x>> value, <<"r", n>> repeat n times, <<"m", x>> multiply by x, *)
(* <<"i", n>> n interpolated values up to the following value.                   *)
(* Expanded values are kept in units of 1/Den so that interpolations with a      *)
(* step of a half or a third ("1 2i 0" = 1, 2/3, 1/3, 0) stay exact integers     *)
(* inside TLC: what C12 needs of an importance is whether it is zero.            *)
Den == 12
RECURSIVE ExpandData(_, _, _)
ExpandData(tk, i, acc) ==
  IF i > Len(tk) THEN acc
  ELSE CASE tk[i][1] = "v" -> ExpandData(tk, i + 1, Append(acc, Den * tk[i][2]))
         [] tk[i][1] = "r" -> ExpandData(tk, i + 1, acc \o [j \in 1..tk[i][2] |-> acc[Len(acc)]])
         [] tk[i][1] = "m" -> ExpandData(tk, i + 1, Append(acc, acc[Len(acc)] * tk[i][2]))
         [] tk[i][1] = "i" ->
              LET lo == acc[Len(acc)]  hi == Den * tk[i + 1][2]  n == tk[i][2]
              IN ExpandData(tk, i + 2, acc \o [j \in 1..n |-> lo + (j * (hi - lo)) \div (n + 1)] \o <<hi>>)
Expand(tk) == ExpandData(tk, 1, <<>>)
Max2(a, b) == IF a > b THEN a ELSE b

VARIABLES pc, ncell, withu, mode, tokN, tokP, pend
vars == <<pc, ncell, withu, mode, tokN, tokP, pend>>
(* pend: an "i" token awaits its closing value *)

Init == /\ pc = "shape" /\ ncell = 0 /\ withu = FALSE /\ mode = "" /\ tokN = <<>> /\ tokP = <<>>
        /\ pend = FALSE

(* total number of cell cards = level-0 slabs + 2 universe cells when withu *)
NCards == ncell + (IF withu THEN 2 ELSE 0)
Shape == /\ pc = "shape"
         /\ \E k \in 2..MaxCells, w \in BOOLEAN, m \in {"data1", "data2", "cell", "cellmulti"} :
              ncell' = k /\ withu' = w /\ mode' = m
         /\ pc' = "tokN" /\ UNCHANGED <<tokN, tokP, pend>>

Vals(tk) == IF pend THEN Expand(SubSeq(tk, 1, Len(tk) - 1)) ELSE Expand(tk)
CanAdd(tk, t) ==
  LET vals == Vals(tk)  room == NCards - Len(vals) IN
  /\ Len(tk) < MaxTokens
  /\ CASE t[1] = "v" -> IF pend THEN (Den * t[2] - vals[Len(vals)]) % (tk[Len(tk)][2] + 1) = 0
                                      /\ room >= tk[Len(tk)][2] + 1
                        ELSE room >= 1
       [] t[1] = "r" -> ~pend /\ Len(vals) >= 1 /\ room >= t[2]
       [] t[1] = "m" -> ~pend /\ Len(vals) >= 1 /\ room >= 1 /\ vals[Len(vals)] * t[2] <= 4 * Den
       [] t[1] = "i" -> ~pend /\ Len(vals) >= 1 /\ room >= t[2] + 1
Toks == { <<"v", x>> : x \in 0..3 } \cup { <<"r", n>> : n \in 1..3 } \cup { <<"m", 2>> }
        \cup { <<"i", n>> : n \in 1..2 }
Done(tk) == ~pend /\ Len(Expand(tk)) = NCards

AddN == /\ pc = "tokN" /\ ~Done(tokN)
        /\ \E t \in Toks : CanAdd(tokN, t) /\ tokN' = Append(tokN, t) /\ pend' = (t[1] = "i")
        /\ UNCHANGED <<pc, ncell, withu, mode, tokP>>
NextCard == /\ pc = "tokN" /\ Done(tokN)
            /\ pc' = IF mode = "data1" THEN "emit" ELSE "tokP"
            /\ UNCHANGED <<ncell, withu, mode, tokN, tokP, pend>>
AddP == /\ pc = "tokP" /\ ~Done(tokP)
        /\ \E t \in Toks : CanAdd(tokP, t) /\ tokP' = Append(tokP, t) /\ pend' = (t[1] = "i")
        /\ UNCHANGED <<pc, ncell, withu, mode, tokN>>
EndP == /\ pc = "tokP" /\ Done(tokP) /\ pc' = "emit"
        /\ UNCHANGED <<ncell, withu, mode, tokN, tokP, pend>>

(* cell cards in block order: slab 1, [universe cells 11, 12], slabs 2..k *)
Deck ==
  LET vn == Expand(tokN)
      vp == IF mode = "data1" THEN vn ELSE Expand(tokP)
      rankOf(i) == IF i = 1 THEN 1 ELSE i + (IF withu THEN 2 ELSE 0)     \* position of slab i
      imp(r) == Max2(vn[r], vp[r])
      slab(i) == [n |-> i, rank |-> rankOf(i), u |-> 0,
                  fill |-> IF withu /\ i = 2 THEN 1 ELSE 0,
                  geom |-> IF i = 1 THEN <<"S", -1, 0>>
                           ELSE IF i = ncell THEN <<"S", ncell - 1, 0>>
                           ELSE <<"*", <<"S", i - 1, 0>>, <<"S", -i, 0>>>>,
                  imp |-> imp(rankOf(i)), impn |-> vn[rankOf(i)], impp |-> vp[rankOf(i)]]
      ucell(j) == [n |-> 10 + j, rank |-> 1 + j, u |-> 1, fill |-> 0,
                   geom |-> IF j = 1 THEN <<"S", -9, 0>> ELSE <<"S", 9, 0>>,
                   imp |-> imp(1 + j), impn |-> vn[1 + j], impp |-> vp[1 + j]]
      cards == IF withu THEN <<slab(1), ucell(1), ucell(2)>> \o [i \in 1..(ncell - 1) |-> slab(i + 1)]
               ELSE [i \in 1..ncell |-> slab(i)]
  IN [cells |-> cards, mode |-> mode, tokN |-> tokN, tokP |-> tokP, ncell |-> ncell, withu |-> withu]
Emit == /\ pc = "emit" /\ PrintT(ToJson(Deck)) /\ pc' = "done"
        /\ UNCHANGED <<ncell, withu, mode, tokN, tokP, pend>>
Next == Shape \/ AddN \/ NextCard \/ AddP \/ EndP \/ Emit
Spec == Init /\ [][Next]_vars

(* design-level sanity: the shorthand of the manual's examples *)
ASSUME Expand(<< <<"v",1>>, <<"r",2>>, <<"m",2>>, <<"i",1>>, <<"v",4>> >>) = <<Den, Den, Den, 2 * Den, 3 * Den, 4 * Den>>
ASSUME Expand(<< <<"v",1>>, <<"i",2>>, <<"v",0>> >>) = <<12, 8, 4, 0>>
ExpandedLengthOK == pc = "emit" => Len(Expand(tokN)) = NCards
=============================================================================
