------------------------------ MODULE Pipeline ------------------------------
(***************************************************************************)
(* The converter as the state machine it is: a fixed sequence of passes    *)
(* over shared dictionaries (construct_volume_t4, convertMCNPGeometry).    *)
(*                                                                         *)
(*   parsed -> trcl -> complement -> lattice -> fill -> inline -> numbered *)
(*          -> converted -> [dedup] -> pruned -> final -> (file written)   *)
(*                                                                         *)
(* This module is the CONTRACT reading (PipelineC of DESIGN.md section 1): *)
(* every pass must leave the meaning of the state unchanged, where the     *)
(* meaning of a state is the map  probe point -> owner / provenance        *)
(* (Appendix E of DESIGN.md):                                              *)
(*   fill, inline      : every convertible cell (importance # 0, universe  *)
(*                       0, no FILL) is a closed Boolean expression over   *)
(*                       surface collections and references to other cells *)
(*   converted .. final: T4Sem owners of the volume dictionary             *)
(* and the reference meaning is McnpSem.Locate of the abstract deck.  A    *)
(* recorded state is accepted iff it satisfies the contract, whatever ids  *)
(* the implementation allocates (refactorings that keep the property do    *)
(* not raise alarms).  Additional contracts: the de-duplication pass may   *)
(* merge two surface numbers only if they are the same surface (C13); the  *)
(* written file contains exactly the volumes of the final state.           *)
(***************************************************************************)
EXTENDS McnpSem, T4Sem

StageOrder == << "parsed", "trcl", "complement", "lattice", "fill", "inline", "numbered", "converted",
                 "dedup", "pruned", "final" >>
Optional == {"dedup"}
Pos(name) == CHOOSE i \in 1..Len(StageOrder) : StageOrder[i] = name
(* the recorded sequence of stage names is the pipeline's, with optional passes possibly absent *)
RECURSIVE OrderOK(_, _, _)
OrderOK(names, i, expect) ==
  IF i > Len(names) THEN \A j \in expect..Len(StageOrder) : StageOrder[j] \in Optional
  ELSE IF expect > Len(StageOrder) THEN FALSE
  ELSE IF names[i] = StageOrder[expect] THEN OrderOK(names, i + 1, expect + 1)
  ELSE IF StageOrder[expect] \in Optional THEN OrderOK(names, i, expect + 1)
  ELSE FALSE

(***************************************************************************)
(* Meaning of a cell-level state (fill, inline).                           *)
(*   S.cells : seq of [key, conv, geom, origin]                            *)
(*   S.rows  : seq of [id, facet, row]  sense of a surface collection      *)
(*             (facet 0) or of one of its facets at every probe point      *)
(***************************************************************************)
CellCtx(S) == [cell |-> [k \in { S.cells[i].key : i \in 1..Len(S.cells) } |->
                           S.cells[CHOOSE i \in 1..Len(S.cells) : S.cells[i].key = k]],
               row |-> [x \in { <<S.rows[i].id, S.rows[i].facet>> : i \in 1..Len(S.rows) } |->
                           S.rows[CHOOSE i \in 1..Len(S.rows) : <<S.rows[i].id, S.rows[i].facet>> = x].row]]
RECURSIVE InTree(_, _, _, _)
InTree(X, t, k, fuel) ==
  IF fuel = 0 THEN FALSE
  ELSE CASE t[1] = "S" -> LET key == <<AbsI(t[2]), t[3]>> IN
                          key \in DOMAIN X.row /\ (IF t[2] > 0 THEN X.row[key][k] = 1 ELSE X.row[key][k] = -1)
         [] t[1] = "R" -> t[2] \in DOMAIN X.cell /\ InTree(X, X.cell[t[2]].geom, k, fuel - 1)
         [] t[1] = "*" -> \A i \in 2..Len(t) : InTree(X, t[i], k, fuel)
         [] t[1] = ":" -> \E i \in 2..Len(t) : InTree(X, t[i], k, fuel)
         [] OTHER -> FALSE
CellOwners(X, k) == { key \in DOMAIN X.cell : X.cell[key].conv /\ InTree(X, X.cell[key].geom, k, 12) }
OnCellSurface(X, k) == \E x \in DOMAIN X.row : X.row[x][k] = 0

(* provenance, as in TraceDeck *)
KeyMatches(D, x, e) == IF IsMark(e) THEN x > MaxCellN(D) ELSE x = e
OriginMatches(D, ch, origin) ==
  /\ Len(origin) = Len(ch) - 1
  /\ \A i \in 1..Len(origin) : KeyMatches(D, origin[i][1], ch[1]) /\ KeyMatches(D, origin[i][2], ch[i + 1])

(* contract of a state, given the reference chains: returns the set of violated clauses *)
OwnerKinds(D, chains, ownersOf(_), skipAt(_), idOK(_, _), originOf(_)) ==
  { kind \in {"spurious", "unowned", "multi", "wrongid", "wrongprov"} :
      \E k \in 1..Len(D.pts) :
        LET ch == chains[k] IN
        /\ ~IsSkip(ch) /\ ~IsBadDeck(ch) /\ ~skipAt(k)
        /\ LET own == ownersOf(k) IN
           CASE kind = "spurious" -> ~Live(D, ch) /\ own # {}
             [] kind = "unowned" -> Live(D, ch) /\ own = {}
             [] kind = "multi" -> Live(D, ch) /\ Cardinality(own) > 1
             [] kind = "wrongid" -> Live(D, ch) /\ Cardinality(own) = 1 /\ Len(ch) = 1
                                    /\ ~idOK(CHOOSE x \in own : TRUE, ch[1])
             [] OTHER -> Live(D, ch) /\ Cardinality(own) = 1 /\ Len(ch) > 1
                         /\ ~OriginMatches(D, ch, originOf(CHOOSE x \in own : TRUE)) }

CellStateDefects(D, chains, S) ==
  LET X == TLCEval(CellCtx(S))
      own == TLCEval([k \in 1..Len(D.pts) |-> CellOwners(X, k)])
      ownersOf(k) == own[k]
      skipAt(k) == OnCellSurface(X, k)
      idOK(key, c) == key = c
      originOf(key) == X.cell[key].origin
  IN OwnerKinds(D, chains, ownersOf, skipAt, idOK, originOf)

VolStateDefects(D, chains, S) ==
  LET X == TLCEval(Ctx(S))
      own == TLCEval([k \in 1..Len(D.pts) |-> Owners(X, k)])
      ownersOf(k) == own[k]
      skipAt(k) == OnEmitted(X, k)
      idOK(id, c) == id = c
      originOf(id) == S.vols[PosOfVol(S, id)].origin
  IN OwnerKinds(D, chains, ownersOf, skipAt, idOK, originOf)

(* C13: two surface numbers are merged only if they are the same surface *)
Proportional2(w1, w2) ==
  /\ w1.pivot # 0 /\ w2.pivot # 0
  /\ LET p == w1.pivot IN
     /\ w2.ratios[p][2] # 0 /\ w2.ratios[p][1] # 0
     /\ \A i \in 1..10 : w1.ratios[i][2] # 0 /\ w2.ratios[i][2] # 0
           (* w1_i / w1_p = w2_i / w2_p  with w1_p = 1 in its own normalisation *)
           /\ w1.ratios[i][1] * w2.ratios[i][2] * w2.ratios[p][1] = w2.ratios[i][1] * w1.ratios[i][2] * w2.ratios[p][2]
     /\ (w1.sgn = w2.sgn) = (w2.ratios[p][1] * w2.ratios[p][2] > 0)
(***************************************************************************)
(* The cell parser, judged on its own output (stage "parsed"): every cell  *)
(* card of the deck - LIKE n BUT cards expanded - is read as the abstract  *)
(* deck says: universe, whether the importance is zero, LAT, FILL universe *)
(* or FILL array (ranges and universes in card order), material number,    *)
(* the FILL transformation and the TRCL (present or not, and their values: *)
(* exact decks have integer matrices and half-integer displacements).      *)
(* S.pcells = the recorded cells.  Lattices filled through --lattice       *)
(* (array not on the card) are compared on ranges and universes as given   *)
(* by the option.                                                          *)
(***************************************************************************)
SameTr(rec, has, tr) ==
  IF ~has THEN ~rec.has
  ELSE rec.has /\ (rec.exact => (rec.o2 = [i \in 1..3 |-> 2 * tr.o[i]] /\ rec.m = tr.m))
ParsedDefects(D, S) ==
  LET pk == { S.pcells[i].key : i \in 1..Len(S.pcells) }
      P(n) == S.pcells[CHOOSE i \in 1..Len(S.pcells) : S.pcells[i].key = n]
      bad(c) ==
        IF c.n \notin pk THEN {"cell_not_parsed"}
        ELSE LET p == P(c.n) IN
             (IF p.u # c.u THEN {"universe"} ELSE {})
             \cup (IF p.zeroimp # (c.imp = 0) THEN {"importance_zero"} ELSE {})
             \cup (IF p.lat # c.lat THEN {"lat"} ELSE {})
             \cup (IF p.mat # c.mat /\ ~(c.fill # 0 \/ c.lat # 0) THEN {"material"} ELSE {})
             \cup (IF c.lat = 0 /\ p.fill # c.fill THEN {"fill_universe"} ELSE {})
             \cup (IF c.lat # 0 /\ c.lranges # <<>> /\ (p.ranges # c.lranges \/ p.univs # c.lunivs) THEN {"fill_array"} ELSE {})
             \cup (IF (c.fill # 0 \/ c.lat # 0) /\ ~SameTr(p.ftr, c.hasftr, c.ftr) THEN {"fill_transformation"} ELSE {})
             \cup (IF ~SameTr(p.trcl, c.hastrcl, c.trcl) THEN {"trcl"} ELSE {})
  IN UNION { bad(D.cells[i]) : i \in 1..Len(D.cells) }
     \cup (IF Len(S.pcells) # Len(D.cells) THEN {"cell_count"} ELSE {})

(***************************************************************************)
(* The lattice pass (develop_lattice), judged on its own output: the cells *)
(* it creates are exactly one per element of the declared ranges whose     *)
(* FILL entry is not 0 - none outside the ranges, none for universe 0 -,   *)
(* each filled with the universe of its index (first index fastest; 0 =    *)
(* the lattice cell's own universe, i.e. the element keeps the material)   *)
(* and each placing that universe by  x = shift(idx) + T(x_inner),  T the  *)
(* FILL transformation of the element (McnpSem!ElemHasFtr), else the TRCL  *)
(* of the lattice cell, else identity.                                     *)
(* Decks with exactly one lattice cell; S.elems = the recorded new cells.  *)
(***************************************************************************)
LatticeDefects(D, S) ==
  LET lats == { i \in 1..Len(D.cells) : D.cells[i].lat # 0 }
  IN IF Cardinality(lats) # 1 THEN {}
     ELSE
       LET c == D.cells[CHOOSE i \in lats : TRUE]
           T(idx) == IF ElemHasFtr(c, idx) THEN c.ftr ELSE IF c.hastrcl THEN c.trcl ELSE IdTr
           univ(idx) == c.lunivs[PosInArray(c, idx)]
           expected == { [o2 |-> [i \in 1..3 |-> LatShift(c, idx)[i] + 2 * T(idx).o[i]], m |-> T(idx).m,
                          fill |-> IF univ(idx) = c.u THEN 0 ELSE univ(idx)] :
                         idx \in { x \in IdxSet(c) : univ(x) # 0 } }
           recorded == { [o2 |-> S.elems[i].o2, m |-> S.elems[i].m, fill |-> S.elems[i].fill] : i \in 1..Len(S.elems) }
           nexp == Cardinality({ x \in IdxSet(c) : univ(x) # 0 })
       IN (IF expected \ recorded # {} THEN {"lattice_element_missing"} ELSE {})
          \cup (IF recorded \ expected # {} THEN {"lattice_element_unexpected"} ELSE {})
          \cup (IF Len(S.elems) # nexp THEN {"lattice_element_count"} ELSE {})
          \cup (IF \E i \in 1..Len(S.elems) : S.elems[i].u # c.u THEN {"lattice_element_universe"} ELSE {})
MergeDefects(S) ==
  LET rowOf(id) == { S.rows[i].row : i \in { j \in 1..Len(S.rows) : S.rows[j].id = id } }
      witOf(id) == { S.wit[i] : i \in { j \in 1..Len(S.wit) : S.wit[j].id = id } }
  IN { <<S.renum[i][1], S.renum[i][2]>> : i \in { j \in 1..Len(S.renum) :
         \/ rowOf(S.renum[j][1]) # rowOf(S.renum[j][2])
         \/ \E w1 \in witOf(S.renum[j][1]), w2 \in witOf(S.renum[j][2]) :
               w1.pivot # 0 /\ w2.pivot # 0 /\ ~Proportional2(w1, w2) } }

(* the file holds exactly the volumes of the final state (minus the zero-importance level-0 cells) *)
WriterDefects(D, S, T) ==
  LET zero == { c.n : c \in { x \in SeqSet(D.cells) : x.u = 0 /\ x.imp = 0 } }
      fin == { S.vols[i].id : i \in 1..Len(S.vols) } \ zero
      vol(V, id) == V.vols[CHOOSE i \in 1..Len(V.vols) : V.vols[i].id = id]
  IN (IF fin # VolIds(T) THEN {"volume_set"} ELSE {})
     \cup (IF \E id \in fin \cap VolIds(T) : vol(S, id).tk # vol(T, id).tk \/ vol(S, id).tv # vol(T, id).tv
           THEN {"volume_body"} ELSE {})
=============================================================================
