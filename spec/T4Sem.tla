------------------------------- MODULE T4Sem -------------------------------
(***************************************************************************)
(* TRIPOLI-4's meaning of a written file (DESIGN.md section 4, T4 side):   *)
(* parsing of VOLU bodies from their tokens, point membership by bounded   *)
(* recursion over UNION / INTE on recorded sense rows, owners, and the     *)
(* structural validity predicate of C08.                                   *)
(*                                                                         *)
(* T (projection of the file made by harness/vt4/t4file.py):               *)
(*  T.surfs : seq of [id, type, nparam, nexpected, finite, tr]             *)
(*  T.trs   : seq of [id, ok]                                              *)
(*  T.vols  : seq of [id, tk, tv, origin]   tk = token kinds, tv = values  *)
(*  T.rows  : seq of [id, row]   sense of SURF id at each probe point      *)
(*  T.compo, T.geomcomp, T.bc : see FileDefects                            *)
(***************************************************************************)
EXTENDS Integers, Sequences, FiniteSets, TLC

WORDS == {"PLUS", "MINUS", "UNION", "INTE", "FICTIVE", "ENDV"}
IdxSetOf(s) == 1..Len(s)

(* index of the next word token at or after i (Len+1 if none) *)
RECURSIVE NextWord(_, _)
NextWord(tk, i) == IF i > Len(tk) THEN i ELSE IF tk[i] \in WORDS THEN i ELSE NextWord(tk, i + 1)

EmptyVol == [ok |-> TRUE, plus |-> <<>>, minus |-> <<>>, op |-> "NONE", args |-> <<>>,
             fict |-> FALSE, seen |-> {}]
RECURSIVE PV(_, _, _, _)
PV(tk, tv, i, acc) ==
  IF i > Len(tk) THEN [acc EXCEPT !.ok = FALSE]
  ELSE CASE tk[i] = "ENDV" -> [acc EXCEPT !.ok = acc.ok /\ i = Len(tk)]
         [] tk[i] = "FICTIVE" -> PV(tk, tv, i + 1, [acc EXCEPT !.fict = TRUE,
                                                     !.ok = acc.ok /\ "FICTIVE" \notin acc.seen,
                                                     !.seen = acc.seen \cup {"FICTIVE"}])
         [] tk[i] \in {"PLUS", "MINUS", "UNION", "INTE"} ->
              LET j == NextWord(tk, i + 1)
                  n == j - i - 2                      \* ids between the count and the next word
                  good == /\ j > i + 1
                          /\ \A x \in (i + 1)..(j - 1) : tk[x] = "NUM"
                          /\ tv[i + 1] = n /\ n >= 0
                          /\ tk[i] \notin acc.seen
                          /\ (tk[i] \in {"UNION", "INTE"} => acc.op = "NONE")
                          /\ "FICTIVE" \notin acc.seen
                  ids == IF j > i + 1 THEN [x \in 1..(j - i - 2) |-> tv[i + 1 + x]] ELSE <<>>
                  acc1 == [acc EXCEPT !.ok = acc.ok /\ good, !.seen = acc.seen \cup {tk[i]}]
                  acc2 == CASE tk[i] = "PLUS" -> [acc1 EXCEPT !.plus = ids]
                            [] tk[i] = "MINUS" -> [acc1 EXCEPT !.minus = ids]
                            [] OTHER -> [acc1 EXCEPT !.op = tk[i], !.args = ids]
              IN PV(tk, tv, j, acc2)
         [] OTHER -> [acc EXCEPT !.ok = FALSE]
ParseVol(v) == IF Len(v.tk) >= 2 /\ v.tk[1] = "EQUA" THEN PV(v.tk, v.tv, 2, EmptyVol)
               ELSE [EmptyVol EXCEPT !.ok = FALSE]

(* parsed view: function from position in T.vols to the parsed record *)
Parsed(T) == [i \in IdxSetOf(T.vols) |-> ParseVol(T.vols[i])]
VolIds(T) == { T.vols[i].id : i \in IdxSetOf(T.vols) }
SurfIds(T) == { T.surfs[i].id : i \in IdxSetOf(T.surfs) }
PosOfVol(T, id) == CHOOSE i \in IdxSetOf(T.vols) : T.vols[i].id = id
RowOf(T, sid) == T.rows[CHOOSE i \in IdxSetOf(T.rows) : T.rows[i].id = sid].row
HasRow(T, sid) == \E i \in IdxSetOf(T.rows) : T.rows[i].id = sid
ToSet(s) == { s[i] : i \in 1..Len(s) }

(* evaluation context: parsed volumes by id, sense rows by surface id (built once per file) *)
Ctx(T) == [vol |-> [id \in VolIds(T) |-> ParseVol(T.vols[PosOfVol(T, id)])],
           row |-> [s \in { T.rows[i].id : i \in IdxSetOf(T.rows) } |-> RowOf(T, s)]]
(* membership of probe point k in volume id *)
RECURSIVE InVol(_, _, _, _)
InVol(X, id, k, fuel) ==
  IF fuel = 0 \/ id \notin DOMAIN X.vol THEN FALSE ELSE
  LET v == X.vol[id]
      eq == /\ \A s \in ToSet(v.plus) : s \in DOMAIN X.row /\ X.row[s][k] = 1
            /\ \A s \in ToSet(v.minus) : s \in DOMAIN X.row /\ X.row[s][k] = -1
  IN IF v.op = "NONE" THEN eq
     ELSE IF v.op = "UNION" THEN eq \/ (\E a \in ToSet(v.args) : InVol(X, a, k, fuel - 1))
     ELSE eq /\ (\A a \in ToSet(v.args) : InVol(X, a, k, fuel - 1))
Owners(X, k) == { id \in DOMAIN X.vol : ~X.vol[id].fict /\ InVol(X, id, k, 40) }
(* probe point k lies (numerically) on one of the emitted surfaces *)
OnEmitted(X, k) == \E s \in DOMAIN X.row : X.row[s][k] = 0

(***************************************************************************)
(* C08: structural validity.  FileDefects(T) = names of violated clauses.  *)
(***************************************************************************)
NoDup(ids) == Cardinality(ToSet(ids)) = Len(ids)
Refs(PVs, i) == ToSet(PVs[i].args)
(* the reference graph is acyclic iff repeatedly discarding the volumes that refer to no remaining volume *)
(* leaves nothing                                                                                      *)
RECURSIVE StripLeaves(_, _, _)
StripLeaves(refsOf, S, fuel) ==
  LET S2 == { v \in S : refsOf[v] \cap S # {} }
  IN IF S2 = S \/ fuel = 0 THEN S ELSE StripLeaves(refsOf, S2, fuel - 1)
Cyclic(T, PVs) ==
  LET ids == VolIds(T)
      refsOf == [v \in ids |-> UNION { Refs(PVs, i) : i \in { j \in IdxSetOf(T.vols) : T.vols[j].id = v } }]
  IN StripLeaves(refsOf, ids, Len(T.vols) + 1) # {}

FileDefects(T) ==
  LET PVs == Parsed(T)
      vids == [i \in IdxSetOf(T.vols) |-> T.vols[i].id]
      sids == [i \in IdxSetOf(T.surfs) |-> T.surfs[i].id]
      tids == [i \in IdxSetOf(T.trs) |-> T.trs[i].id]
      nonfict == { T.vols[i].id : i \in { j \in IdxSetOf(T.vols) : ~PVs[j].fict } }
      grows == T.geomcomp.rows
      allAssigned == LET RECURSIVE Cat(_)
                         Cat(r) == IF r = 0 THEN <<>> ELSE Cat(r - 1) \o grows[r].ids
                     IN Cat(Len(grows))
      cnames == T.compo.names
  IN
  (IF ~NoDup(sids) \/ (\E i \in IdxSetOf(sids) : sids[i] <= 0) THEN {"surf_defined_once"} ELSE {})
  \cup (IF ~NoDup(vids) \/ (\E i \in IdxSetOf(vids) : vids[i] <= 0) THEN {"vol_defined_once"} ELSE {})
  \cup (IF \E i \in IdxSetOf(T.surfs) : T.surfs[i].nparam # T.surfs[i].nexpected \/ ~T.surfs[i].finite
        THEN {"surf_params"} ELSE {})
  \cup (IF ~NoDup(tids) \/ (\E i \in IdxSetOf(T.trs) : ~T.trs[i].ok)
           \/ (\E i \in IdxSetOf(T.surfs) : T.surfs[i].tr # 0 /\ T.surfs[i].tr \notin ToSet(tids))
        THEN {"transform"} ELSE {})
  \cup (IF \E i \in IdxSetOf(T.vols) : ~PVs[i].ok THEN {"vol_syntax_or_count"} ELSE {})
  \cup (IF \E i \in IdxSetOf(T.vols) : ~(ToSet(PVs[i].plus) \cup ToSet(PVs[i].minus) \subseteq SurfIds(T))
        THEN {"surf_ref_undefined"} ELSE {})
  \cup (IF \E i \in IdxSetOf(T.vols) : ~(ToSet(PVs[i].args) \subseteq VolIds(T))
        THEN {"vol_ref_undefined"} ELSE {})
  \cup (IF \E i \in IdxSetOf(T.vols) : ToSet(PVs[i].plus) \cap ToSet(PVs[i].minus) # {}
        THEN {"surface_on_both_sides"} ELSE {})
  \cup (IF Cyclic(T, PVs) THEN {"cyclic_reference"} ELSE {})
  \cup (IF ~T.endg \/ T.njunk # 0 THEN {"geometry_block"} ELSE {})
  \cup (IF T.compo.present /\ (T.compo.declared # Len(cnames) \/ ~T.compo.ncounts_ok
                               \/ ~T.compo.finite \/ T.compo.njunk # 0 \/ ~NoDup(cnames))
        THEN {"composition_block"} ELSE {})
  \cup (IF T.geomcomp.present /\
           (\/ \E r \in IdxSetOf(grows) : grows[r].count # Len(grows[r].ids)
            \/ \E r \in IdxSetOf(grows) : ~(ToSet(grows[r].ids) \subseteq nonfict)
            \/ ~NoDup(allAssigned) \/ ToSet(allAssigned) # nonfict
            \/ (T.compo.present /\ \E r \in IdxSetOf(grows) : grows[r].name \notin ToSet(cnames)))
        THEN {"geomcomp"} ELSE {})
  \cup (IF T.bc.present /\
           (\/ T.bc.declared # Len(T.bc.items)
            \/ \E i \in IdxSetOf(T.bc.items) : ~T.bc.items[i].ok
                  \/ T.bc.items[i].id \notin SurfIds(T)
                  \/ T.bc.items[i].kind \notin {"REFLECTION", "COSINUS"})
        THEN {"boundary_condition"} ELSE {})
FileValid(T) == FileDefects(T) = {}
=============================================================================
