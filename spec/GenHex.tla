------------------------------- MODULE GenHex -------------------------------
(***************************************************************************)
(* Generator of hexagonal (LAT=2) lattices for C07.  The unit cell is an   *)
(* integer PARALLELOGON hexagon (opposite sides parallel and equal - the   *)
(* regular hexagon's affine images; regular ones are reached by the        *)
(* covariance map of the harness) with edge vectors e1, e2, e3, -e1, -e2,  *)
(* -e3 in counterclockwise order, extruded along the prism axis, with 6 or *)
(* 8 bounding planes.  The translation that carries the cell across a side *)
(* is determined by the tiling:                                            *)
(*    across side e1: T1 = -(e2+e3);  e2: T2 = e1-e3;  e3: T3 = e1+e2      *)
(* (and the opposite ones across the opposite sides).  MCNP's convention:  *)
(* a1 carries the cell across the FIRST-listed plane, a2 across the THIRD, *)
(* a3 across the SEVENTH; the three pairs may be listed in any order and   *)
(* either plane of a pair first.  HexVecsOK restates this declaratively    *)
(* (the second plane of a pair moved by the vector is the first; the       *)
(* hexagon moved by a1 shares exactly the first-listed side).              *)
(***************************************************************************)
EXTENDS Geom, TLC, Json

CONSTANT Lvl

Card(n, k, p) == [n |-> n, k |-> k, p |-> p, d |-> 1, tr |-> 0, bc |-> "", hlen |-> 0, flen |-> 0]
IdM == <<1,0,0, 0,1,0, 0,0,1>>
Tr(o, m) == [o |-> o, m |-> m]
NoTr == Tr(<<0,0,0>>, IdM)

(* hexagons: <<V0, e1, e2, e3>> in the (x, y) plane, counterclockwise *)
Hexes == { << <<-1,-2,0>>, <<2,0,0>>, <<1,2,0>>, <<-1,2,0>> >>,       \* centre at the origin
           << <<0,1,0>>, <<3,0,0>>, <<2,1,0>>, <<0,1,0>> >>,          \* the "weird hexagon" of hexSortSides
           << <<-2,-2,0>>, <<2,0,0>>, <<0,2,0>>, <<-2,2,0>> >> }       \* centre at (-1, 0)
(* orientations of the (x, y, axis) frame in space *)
Orients == { IdM, <<0,1,0, 0,0,1, 1,0,0>>, <<0,0,1, 1,0,0, 0,1,0>>, <<1,0,0, 0,-1,0, 0,0,-1>>, <<0,1,0, 1,0,0, 0,0,-1>> }
Apply(m, v) == << v[1]*m[1] + v[2]*m[4] + v[3]*m[7], v[1]*m[2] + v[2]*m[5] + v[3]*m[8], v[1]*m[3] + v[2]*m[6] + v[3]*m[9] >>
Ranges == { <<-1, 1>>, <<0, 1>>, <<-1, 0>>, <<0, 0>>, <<-2, -1>> }
TrSet == { Tr(<<0,0,0>>, <<0,1,0, -1,0,0, 0,0,1>>), Tr(<<1,0,0>>, IdM), Tr(<<0,0,0>>, <<-1,0,0, 0,-1,0, 0,0,1>>) }

VARIABLES pc, hex, orient, order, first, eight, h7, ranges, arr, ftr, ctr, ltr
vars == <<pc, hex, orient, order, first, eight, h7, ranges, arr, ftr, ctr, ltr>>

Init == /\ pc = "cell" /\ hex = (CHOOSE h \in Hexes : TRUE) /\ orient = IdM /\ order = <<1, 2, 3>> /\ first = <<1, 1, 1>>
        /\ eight = FALSE /\ h7 = 1 /\ ranges = <<>> /\ arr = <<>>
        /\ ftr = [has |-> FALSE, tr |-> NoTr] /\ ctr = [has |-> FALSE, tr |-> NoTr] /\ ltr = [has |-> FALSE, tr |-> NoTr]
Cell == /\ pc = "cell"
        /\ \E h \in Hexes, o \in Orients, pm \in Perms3 : hex' = h /\ orient' = o /\ order' = pm
        /\ pc' = "sides" /\ UNCHANGED <<first, eight, h7, ranges, arr, ftr, ctr, ltr>>
Sides == /\ pc = "sides"
         /\ \E f \in [1..3 -> {-1, 1}], e \in BOOLEAN, s7 \in {-1, 1} : first' = f /\ eight' = e /\ h7' = s7
         /\ ranges' = <<>> /\ pc' = "ranges" /\ UNCHANGED <<hex, orient, order, arr, ftr, ctr, ltr>>
NDims == IF eight THEN 3 ELSE 2
Rng == /\ pc = "ranges" /\ Len(ranges) < NDims
       /\ \E r \in Ranges : ranges' = Append(ranges, r)
       /\ UNCHANGED <<pc, hex, orient, order, first, eight, h7, arr, ftr, ctr, ltr>>
Trs == /\ pc = "ranges" /\ Len(ranges) = NDims
       /\ \E ft \in { [has |-> FALSE, tr |-> NoTr] } \cup { [has |-> TRUE, tr |-> t] : t \in TrSet },
             ct \in { [has |-> FALSE, tr |-> NoTr] } \cup { [has |-> TRUE, tr |-> t] : t \in TrSet },
             lt \in { [has |-> FALSE, tr |-> NoTr] } \cup { [has |-> TRUE, tr |-> t] : t \in TrSet } :
            ftr' = ft /\ ctr' = ct /\ ltr' = lt
       /\ arr' = <<>> /\ pc' = "fill" /\ UNCHANGED <<hex, orient, order, first, eight, h7, ranges>>
Size == LET RECURSIVE Pr(_) Pr(d) == IF d = 0 THEN 1 ELSE (ranges[d][2] - ranges[d][1] + 1) * Pr(d - 1) IN Pr(Len(ranges))
Fill == /\ pc = "fill" /\ Len(arr) < Size
        (* a FILL transformation of the whole lattice can only be written on the form FILL=n (completed by --lattice) *)
        /\ \E u \in IF ftr.has THEN (IF arr = <<>> THEN {2, 3} ELSE {arr[1]}) ELSE {0, 1, 2, 3} : arr' = Append(arr, u)
        /\ UNCHANGED <<pc, hex, orient, order, first, eight, h7, ranges, ftr, ctr, ltr>>
Done == /\ pc = "fill" /\ Len(arr) = Size /\ pc' = "emit"
        /\ UNCHANGED <<hex, orient, order, first, eight, h7, ranges, arr, ftr, ctr, ltr>>

(* geometry in space *)
V0 == Apply(orient, hex[1])
E(i) == Apply(orient, hex[i + 1])
Axis == Apply(orient, <<0, 0, 1>>)
Vtx(k) == CASE k = 0 -> V0 [] k = 1 -> Add(V0, E(1)) [] k = 2 -> Add(Add(V0, E(1)), E(2))
            [] k = 3 -> Add(Add(Add(V0, E(1)), E(2)), E(3)) [] k = 4 -> Add(Add(V0, E(2)), E(3)) [] OTHER -> Add(V0, E(3))
(* side j (1..3): edge e_j from Vtx(j-1); side j+3 is the opposite one *)
Trans(j) == CASE j = 1 -> Scale(-1, Add(E(2), E(3))) [] j = 2 -> Sub(E(1), E(3)) [] OTHER -> Add(E(1), E(2))
SideT(j, s) == Scale(s, Trans(j))                          \* s = 1: side j, s = -1: the opposite side
SideVtx(j, s) == IF s = 1 THEN Vtx(j - 1) ELSE Vtx(j + 2)
SideN(j, s) == Scale(s, Cross(E(j), Axis))                  \* outward normal
(* surface numbers: 100 + position on the card (1..8) *)
PairAt(pos) == order[(pos + 1) \div 2]
SignAt(pos) == IF pos % 2 = 1 THEN first[(pos + 1) \div 2] ELSE -first[(pos + 1) \div 2]
SidePlane(pos) == LET j == PairAt(pos)  s == SignAt(pos)  n == SideN(j, s)
                  IN Card(100 + pos, "p", <<n[1], n[2], n[3], Dot(n, SideVtx(j, s))>>)
(* axial planes at heights +-2 along the axis: position 7 is the top (h7 = 1) or the bottom one *)
AxPlane(pos) == LET s == IF pos = 7 THEN h7 ELSE -h7
                IN Card(100 + pos, "p", <<s*Axis[1], s*Axis[2], s*Axis[3], 2>>)
NPlanes == IF eight THEN 8 ELSE 6
CellGeom == <<"*">> \o [pos \in 1..NPlanes |-> <<"S", -(100 + pos), 0>>]
LVecs0 == << Scale(2, SideT(PairAt(1), SignAt(1))), Scale(2, SideT(PairAt(3), SignAt(3))) >>
          \o (IF eight THEN << Scale(2 * 4 * h7, Axis) >> ELSE <<>>)
(* the cell's own TRCL turns the whole lattice: the base vectors are turned with it *)
LVecs == [d \in 1..Len(LVecs0) |-> VecToMain(ltr.tr, LVecs0[d])]

(* declarative statement of the convention, checked on every generated deck *)
HexVecsOK ==
  pc = "emit" =>
    /\ \A d \in 1..2 :
         LET p1 == SidePlane(2*d - 1).p  p2 == SidePlane(2*d).p  a == Scale(first[d], Trans(order[d]))
         IN (* the second-listed plane moved by a_d is the first-listed one (normals are opposite) *)
            /\ <<p1[1], p1[2], p1[3]>> = Scale(-1, <<p2[1], p2[2], p2[3]>>)
            /\ p1[4] = Dot(<<p1[1], p1[2], p1[3]>>, a) - p2[4]
            (* and a_d is not parallel to that side: the cell really moves across it *)
            /\ Dot(<<p1[1], p1[2], p1[3]>>, a) > 0
    /\ Sub(Vtx(3), Vtx(0)) = Add(Add(E(1), E(2)), E(3))

S(n) == <<"S", n, 0>>
PlainCell(n, geom, u, mat) ==
  [n |-> n, geom |-> geom, u |-> u, imp |-> 1, fill |-> 0, lat |-> 0, mat |-> mat,
   hasftr |-> FALSE, ftr |-> NoTr, hastrcl |-> FALSE, trcl |-> NoTr,
   lranges |-> <<>>, lunivs |-> <<>>, lvecs |-> <<>>, latopt |-> FALSE]
Deck ==
  LET lc == [PlainCell(10, CellGeom, 1, 3) EXCEPT !.lat = 2, !.lranges = ranges, !.lunivs = arr, !.lvecs = LVecs,
                                                   !.hasftr = ftr.has, !.ftr = ftr.tr, !.hastrcl = ltr.has, !.trcl = ltr.tr,
                                                   !.latopt = ftr.has, !.fill = IF ftr.has THEN arr[1] ELSE 0]
      world == << [PlainCell(1, S(-1), 0, 0) EXCEPT !.fill = 1, !.hasftr = ctr.has, !.ftr = ctr.tr],
                  [PlainCell(2, S(1), 0, 0) EXCEPT !.imp = 0] >>
      u2 == << PlainCell(21, <<"*", S(-21), S(-22)>>, 2, 1), PlainCell(22, <<"C", 21>>, 2, 2) >>
      u3 == << PlainCell(31, S(-23), 3, 2), PlainCell(32, S(23), 3, 0) >>
      planes == [pos \in 1..NPlanes |-> IF pos <= 6 THEN SidePlane(pos) ELSE AxPlane(pos)]
  IN [cells |-> world \o <<lc>> \o u2 \o u3,
      surfs |-> << Card(1, "so", <<7>>), Card(21, "px", <<0>>), Card(22, "py", <<0>>), Card(23, "pz", <<0>>) >> \o planes]
Emit == pc = "emit" /\ PrintT(ToJson(Deck)) /\ pc' = "done"
        /\ UNCHANGED <<hex, orient, order, first, eight, h7, ranges, arr, ftr, ctr, ltr>>
Next == Cell \/ Sides \/ Rng \/ Trs \/ Fill \/ Done \/ Emit
LatticeVecsOK == HexVecsOK
=============================================================================
