------------------------------ MODULE GenLike ------------------------------
(***************************************************************************)
(* Generator for C15 (and the LIKE-BUT part of C09): slab decks            *)
(*     4: x < -1     1: -1 < x < 1 (base)    2 = LIKE 1 BUT TRCL=(2 0 0) .. *)
(*     3 = LIKE 2 (or LIKE 1) BUT TRCL=(4 0 0) ..      5: x > 5             *)
(* The specification of LIKE n BUT (ExpandLike): the card of cell n with   *)
(* every listed parameter replaced; chains resolve from the inside out.    *)
(* The emitted cells carry the EFFECTIVE parameters (what MCNP means) plus *)
(* the LIKE spelling (like, but); the harness writes the deck once with    *)
(* LIKE cards and once with the explicit cards.                            *)
(***************************************************************************)
EXTENDS Geom, TLC, Json

Card(n, k, p) == [n |-> n, k |-> k, p |-> p, d |-> 1, tr |-> 0, bc |-> "", hlen |-> 0, flen |-> 0]
Surfs == << Card(1, "px", <<-1>>), Card(2, "px", <<1>>), Card(4, "px", <<5>>),
            Card(11, "py", <<0>>), Card(21, "pz", <<1>>) >>
IdM == <<1,0,0, 0,1,0, 0,0,1>>
Shift(x, y) == [o |-> <<x, y, 0>>, m |-> IdM]

(* parameter sets of a cell: mat (0 = void), rho class, imp, fill, u, trcl shift *)
(* ft: the FILL carries a transformation (0 = none, 1 = shift (0 1 1)); it belongs to the FILL keyword: *)
(* a BUT list that gives FILL replaces universe AND transformation (none if it gives none)              *)
Params == [mat : {0, 1, 2}, rho : {1, 2}, imp : {0, 1}, fill : {0, 1, 2}, u : {0}, ty : {0, 1}, ft : {0, 1}]
Keys == {"mat", "rho", "imp", "fill", "u"}
(* ExpandLike: parameters of the LIKE cell = base parameters overridden by the BUT list *)
Override(base, but, vals) ==
  [k \in DOMAIN base |-> IF k \in but THEN vals[k]
                          ELSE IF k = "ft" /\ "fill" \in but THEN vals.ft
                          ELSE base[k]]

VARIABLES pc, base, c2, c3, chain3
Init == pc = "base" /\ base = [mat |-> 0, rho |-> 1, imp |-> 1, fill |-> 0, u |-> 0, ty |-> 0, ft |-> 0]
        /\ c2 = <<>> /\ c3 = <<>> /\ chain3 = 1
Base == pc = "base" /\ \E p \in Params : (p.mat = 0 => p.rho = 1) /\ p.imp = 1 /\ (p.fill = 0 => p.ft = 0) /\ base' = p
        /\ pc' = "c2" /\ UNCHANGED <<c2, c3, chain3>>
(* keeptr: a LIKE cell that is moved to universe 3 may leave the TRCL alone and inherit it (with its spelling) *)
C2 == pc = "c2" /\ (\E x \in { [but |-> b, vals |-> v, keeptr |-> kt] : b \in SUBSET Keys, kt \in BOOLEAN,
                                  v \in [mat : {0, 1, 2}, rho : {1, 2}, imp : {0, 1}, fill : {0, 1, 2}, u : {0, 3}, ft : {0, 1}] } :
                        c2' = x)
      /\ pc' = "c3" /\ UNCHANGED <<base, c3, chain3>>
C3 == pc = "c3" /\ (\E x \in { [but |-> b, vals |-> v, keeptr |-> kt] : b \in SUBSET Keys, kt \in BOOLEAN,
                                  v \in [mat : {0, 1, 2}, rho : {1, 2}, imp : {0, 1}, fill : {0, 1, 2}, u : {0, 3}, ft : {0, 1}] },
                       ch \in {1, 2} : c3' = x /\ chain3' = ch)
      /\ pc' = "emit" /\ UNCHANGED <<base, c2>>

Eff2 == Override(base, c2.but, c2.vals)
Eff3 == Override(IF chain3 = 2 THEN Eff2 ELSE base, c3.but, c3.vals)
(* a material cell needs a density: overriding MAT of a void base without RHO is not a valid card *)
Valid == /\ (base.mat = 0 /\ "mat" \in c2.but /\ c2.vals.mat # 0) => "rho" \in c2.but
         /\ ((IF chain3 = 2 THEN Eff2 ELSE base).mat = 0 /\ "mat" \in c3.but /\ c3.vals.mat # 0) => "rho" \in c3.but
         /\ (base.mat = 0 => "rho" \notin c2.but \/ "mat" \in c2.but)
         /\ ((IF chain3 = 2 THEN Eff2 ELSE base).mat = 0 => "rho" \notin c3.but \/ "mat" \in c3.but)
         (* MAT=0 on a BUT list makes the copy void: no RHO next to it *)
         /\ ("mat" \in c2.but /\ c2.vals.mat = 0) => "rho" \notin c2.but
         /\ ("mat" \in c3.but /\ c3.vals.mat = 0) => "rho" \notin c3.but
S(n) == <<"S", n, 0>>
MkCell(n, p, tr, like, but) ==
  [n |-> n, geom |-> <<"*", S(1), S(-2)>>, mat |-> p.mat, rho |-> IF p.mat = 0 THEN 0 ELSE p.rho,
   imp |-> p.imp, fill |-> p.fill, u |-> p.u,
   hasftr |-> (p.fill # 0 /\ p.ft = 1), ftr |-> [o |-> <<0, 1, 1>>, m |-> IdM],
   hastrcl |-> tr.has, trcl |-> tr.tr, like |-> like, but |-> but]
KeepsTr(c) == c.keeptr /\ "u" \in c.but /\ c.vals.u = 3
But2 == IF KeepsTr(c2) THEN c2.but ELSE c2.but \cup {"trcl"}
But3 == IF KeepsTr(c3) THEN c3.but ELSE c3.but \cup {"trcl"}
Tr1 == [has |-> base.ty # 0, tr |-> Shift(0, base.ty)]
Tr2 == IF "trcl" \in But2 THEN [has |-> TRUE, tr |-> Shift(2, base.ty)] ELSE Tr1
Tr3 == IF "trcl" \in But3 THEN [has |-> TRUE, tr |-> Shift(4, base.ty)] ELSE IF chain3 = 2 THEN Tr2 ELSE Tr1
Deck == << MkCell(1, base, Tr1, 0, {}),
           MkCell(2, Eff2, Tr2, 1, But2),
           MkCell(3, Eff3, Tr3, chain3, But3),
           [n |-> 4, geom |-> S(-1), mat |-> 0, rho |-> 0, imp |-> 1, fill |-> 0, u |-> 0, hasftr |-> FALSE, ftr |-> Shift(0, 0),
            hastrcl |-> FALSE, trcl |-> Shift(0, 0), like |-> 0, but |-> {}],
           [n |-> 5, geom |-> S(4), mat |-> 0, rho |-> 0, imp |-> 0, fill |-> 0, u |-> 0, hasftr |-> FALSE, ftr |-> Shift(0, 0),
            hastrcl |-> FALSE, trcl |-> Shift(0, 0), like |-> 0, but |-> {}],
           [n |-> 11, geom |-> S(-11), mat |-> 1, rho |-> 1, imp |-> 1, fill |-> 0, u |-> 1, hasftr |-> FALSE, ftr |-> Shift(0, 0),
            hastrcl |-> FALSE, trcl |-> Shift(0, 0), like |-> 0, but |-> {}],
           [n |-> 12, geom |-> S(11), mat |-> 2, rho |-> 2, imp |-> 1, fill |-> 0, u |-> 1, hasftr |-> FALSE, ftr |-> Shift(0, 0),
            hastrcl |-> FALSE, trcl |-> Shift(0, 0), like |-> 0, but |-> {}],
           [n |-> 21, geom |-> S(-21), mat |-> 0, rho |-> 0, imp |-> 1, fill |-> 0, u |-> 2, hasftr |-> FALSE, ftr |-> Shift(0, 0),
            hastrcl |-> FALSE, trcl |-> Shift(0, 0), like |-> 0, but |-> {}],
           [n |-> 22, geom |-> S(21), mat |-> 1, rho |-> 2, imp |-> 1, fill |-> 0, u |-> 2, hasftr |-> FALSE, ftr |-> Shift(0, 0),
            hastrcl |-> FALSE, trcl |-> Shift(0, 0), like |-> 0, but |-> {}] >>
Emit == pc = "emit" /\ Valid /\ PrintT(ToJson([cells |-> Deck, surfs |-> Surfs, chain3 |-> chain3]))
        /\ pc' = "done" /\ UNCHANGED <<base, c2, c3, chain3>>
Next == Base \/ C2 \/ C3 \/ Emit
=============================================================================
