----------------------------- MODULE TraceExpr -----------------------------
(***************************************************************************)
(* Validation of recorded executions of the real front end for C11: for    *)
(* every record (expression text built from `toks`, parsed by the repo's   *)
(* get_ast and passed through CellConversion.pot_complement) the parsed    *)
(* tree and the complement-free tree must denote the Boolean function of   *)
(* the abstract tree, for all 2^n sense assignments.                       *)
(***************************************************************************)
EXTENDS Expr, Json, IOUtils

(* the harness writes one file of traces per block so that blocks are read in parallel *)
BlockTraces(b) == JsonDeserialize(IOEnv.TRACE_DIR \o "/b" \o ToString(b) \o ".json")
NB == 64

EnvOf(r) == r.env
HasBothOps(t) == LET RECURSIVE Ops(_)
                     Ops(x) == CASE IsNary(x) -> {x[1]} \cup UNION {Ops(x[i]) : i \in Kids(x)}
                                 [] x[1] = "N" -> {"#"} \cup Ops(x[2])
                                 [] x[1] = "C" -> {"#"}
                                 [] OTHER -> {}
                 IN Cardinality(Ops(t)) >= 2
NonTrivial(r) == /\ HasBothOps(r.tree)
                 /\ LET V == VarsOf(r.env, r.tree, 8)
                        tt == TruthTable(r.env, r.tree, V)
                    IN tt # {} /\ tt # Assignments(V)

Verdict(r) ==
  IF r.result # "ok" THEN "crash"
  ELSE IF ~Equivalent(r.env, r.tree, r.ast) THEN "parse"
  ELSE IF ~ComplementFree(r.post) THEN "notfree"
  ELSE IF ~Equivalent(r.env, r.tree, r.post) THEN "complement"
  ELSE "ok"

BlockVerdict(b) ==
  LET tr == BlockTraces(b)
      vd == TLCEval([i \in 1..Len(tr) |-> Verdict(tr[i])])
      bad == { i \in 1..Len(tr) : vd[i] # "ok" }
  IN [block |-> b, n |-> Len(tr),
      nontrivial |-> Cardinality({ i \in 1..Len(tr) : NonTrivial(tr[i]) }),
      bad |-> { <<tr[i].tid, vd[i]>> : i \in bad }]

VARIABLE blk
Init == blk = 0
Pick == blk = 0 /\ \E b \in 1..NB : blk' = -b
Check == blk < 0 /\ PrintT(ToJson(BlockVerdict(-blk))) /\ blk' = -blk
Next == Pick \/ Check
=============================================================================
