----------------------------- MODULE TraceExpr -----------------------------
(***************************************************************************)
(* Validation of recorded executions of the real front end for C11: for    *)
(* every record (expression text built from `toks`, parsed by the repo's   *)
(* get_ast and passed through CellConversion.pot_complement) the parsed    *)
(* tree and the complement-free tree must denote the Boolean function of   *)
(* the abstract tree, for all 2^n sense assignments.                       *)
(***************************************************************************)
EXTENDS Expr, Json, IOUtils

Traces == JsonDeserialize(IOEnv.TRACE_FILE)
NB == 64
N == Len(Traces)

EnvOf(r) == r.env
HasBothOps(t) == LET RECURSIVE Ops(_)
                     Ops(x) == CASE IsNary(x) -> {x[1]} \cup UNION {Ops(x[i]) : i \in Kids(x)}
                                 [] x[1] = "N" -> {"#"} \cup Ops(x[2])
                                 [] x[1] = "C" -> {"#"}
                                 [] OTHER -> {}
                 IN Cardinality(Ops(t)) >= 2
NonTrivial(r) == /\ HasBothOps(r.tree)
                 /\ LET V == VarsOf(r.env, r.tree, 8)
                        tt == TruthTable(r.env, r.tree, V)
                    IN tt # {} /\ tt # Assignments(V)

Verdict(r) ==
  IF r.result # "ok" THEN "crash"
  ELSE IF ~Equivalent(r.env, r.tree, r.ast) THEN "parse"
  ELSE IF ~ComplementFree(r.post) THEN "notfree"
  ELSE IF ~Equivalent(r.env, r.tree, r.post) THEN "complement"
  ELSE "ok"

Block(b) == { i \in 1..N : i % NB = b % NB }
BlockVerdict(b) ==
  LET ids == Block(b)
      bad == { i \in ids : Verdict(Traces[i]) # "ok" }
  IN [block |-> b, n |-> Cardinality(ids),
      nontrivial |-> Cardinality({ i \in ids : NonTrivial(Traces[i]) }),
      bad |-> { <<Traces[i].tid, Verdict(Traces[i])>> : i \in bad }]

VARIABLE blk
Init == blk = 0
Pick == blk = 0 /\ \E b \in 1..NB : blk' = -b
Check == blk < 0 /\ PrintT(ToJson(BlockVerdict(-blk))) /\ blk' = -blk
Next == Pick \/ Check
=============================================================================
