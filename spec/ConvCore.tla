------------------------------ MODULE ConvCore ------------------------------
(***************************************************************************)
(* Operators shared by the deterministic transcriptions PipelineD (Boolean *)
(* core) and PipelineD2 (FILL + inlining): meaning over sense assignments, *)
(* pot_flag, pot_optimise, pot_to_t4_cell with convert_surface and         *)
(* convert_cellref, de-duplication classes, remove_empty_volumes.          *)
(* Trees: <<"S", n>> signed surface, <<"R", k>> reference to cell k        *)
(* (CellRef), <<op, kids..>> before pot_flag, <<op, id, kids..>> after.    *)
(***************************************************************************)
EXTENDS Integers, Sequences, FiniteSets, TLC, Json

CONSTANTS NSurf, Dups
(* Dups: set of pairs <<i, j>> (i < j) of surface numbers describing the same surface; *)
(* surfaces NSurf+1, NSurf+2 are the auxiliary planes U0 = PLANEX 1, U1 = PLANEX -1    *)
(* the configurations used by the harness (a .cfg file cannot spell sets of tuples) *)
DupsNone == {}
DupsDeck == {<<1, 3>>}          \* deck surfaces 1 and 3 are the same surface
DupsAux0 == {<<2, 4>>}          \* deck surface 2 is PLANEX 1, i.e. the auxiliary plane U0 (NSurf = 3)
DupsAux1 == {<<3, 5>>}          \* deck surface 3 is PLANEX -1, i.e. the auxiliary plane U1 (NSurf = 3)
U0 == NSurf + 1
U1 == NSurf + 2
AllS == 1..(NSurf + 2)
NONE == <<"NONE">>
IsLeaf(t) == t[1] = "S"
IsRef(t) == t[1] = "R"
IsAtom(t) == IsLeaf(t) \/ IsRef(t)
IsNone(t) == t[1] = "NONE"

(***************************************************************************)
(* meaning                                                                 *)
(***************************************************************************)
Rep(i) == IF \E p \in Dups : p[2] = i THEN (CHOOSE p \in Dups : p[2] = i)[1] ELSE i
Assignments == { a \in [AllS -> BOOLEAN] : /\ \A i \in AllS : a[i] = a[Rep(i)]
                                           /\ (a[U0] => a[U1]) }
RECURSIVE EvalT(_, _)
EvalT(t, a) == CASE IsLeaf(t) -> IF t[2] > 0 THEN a[t[2]] ELSE ~a[-t[2]]
                 [] t[1] = "*" -> \A i \in 2..Len(t) : EvalT(t[i], a)
                 [] OTHER -> \E i \in 2..Len(t) : EvalT(t[i], a)
(* with references to other cells (cells: function key -> unflagged tree) *)
RECURSIVE EvalC(_, _, _, _)
EvalC(cells, t, a, fuel) ==
  IF fuel = 0 THEN FALSE
  ELSE CASE IsLeaf(t) -> IF t[2] > 0 THEN a[t[2]] ELSE ~a[-t[2]]
         [] IsRef(t) -> EvalC(cells, cells[t[2]], a, fuel - 1)
         [] t[1] = "*" -> \A i \in 2..Len(t) : EvalC(cells, t[i], a, fuel)
         [] OTHER -> \E i \in 2..Len(t) : EvalC(cells, t[i], a, fuel)
ToSet(s) == { s[i] : i \in 1..Len(s) }
RECURSIVE InVolA(_, _, _, _)
InVolA(vols, id, a, fuel) ==
  IF fuel = 0 \/ id \notin DOMAIN vols THEN FALSE ELSE
  LET v == vols[id]
      eq == (\A s \in v.plus : a[s]) /\ (\A s \in v.minus : ~a[s])
  IN IF v.op = "NONE" THEN eq
     ELSE IF v.op = "UNION" THEN eq \/ (\E x \in ToSet(v.args) : InVolA(vols, x, a, fuel - 1))
     ELSE eq /\ (\A x \in ToSet(v.args) : InVolA(vols, x, a, fuel - 1))

(***************************************************************************)
(* pot_flag: ids in post-order (children before their parent)              *)
(***************************************************************************)
RECURSIVE FlagT(_, _), FlagKids(_, _, _, _)
FlagKids(t, i, next, acc) ==
  IF i > Len(t) THEN [ts |-> acc, next |-> next]
  ELSE LET r == FlagT(t[i], next) IN FlagKids(t, i + 1, r.next, Append(acc, r.t))
FlagT(t, next) ==
  IF IsAtom(t) THEN [t |-> t, next |-> next]
  ELSE LET k == FlagKids(t, 2, next, <<>>) IN [t |-> <<t[1], k.next + 1>> \o k.ts, next |-> k.next + 1]

(***************************************************************************)
(* pot_optimise                                                            *)
(***************************************************************************)
Kids(t) == SubSeq(t, 3, Len(t))
RECURSIVE OptT(_), Concat(_, _)
Concat(ss, i) == IF i > Len(ss) THEN <<>> ELSE ss[i] \o Concat(ss, i + 1)
OptT(t) ==
  IF IsAtom(t) THEN t
  ELSE LET ks == [i \in 1..(Len(t) - 2) |-> OptT(t[i + 2])] IN
       IF t[1] = "*" /\ \E i \in 1..Len(ks) : IsNone(ks[i]) THEN NONE
       ELSE LET live == SelectSeq(ks, LAMBDA k : ~IsNone(k))
                flat == Concat([i \in 1..Len(live) |->
                                  IF ~IsAtom(live[i]) /\ live[i][1] = t[1] THEN Kids(live[i]) ELSE <<live[i]>>], 1)
                leaves == { flat[i][2] : i \in { j \in 1..Len(flat) : IsLeaf(flat[j]) } }
            IN IF t[1] = "*" /\ \E s \in leaves : -s \in leaves THEN NONE
               ELSE <<t[1], t[2]>> \o flat

(***************************************************************************)
(* pot_to_t4_cell / convert_surface; state st = [vols, next, scache]       *)
(***************************************************************************)
Put(f, k, v) == [x \in DOMAIN f \cup {k} |-> IF x = k THEN v ELSE f[x]]
Vol(p, m, op, args) == [plus |-> p, minus |-> m, op |-> op, args |-> args, fict |-> TRUE]
ConvSurf(s, st) ==
  IF s \in DOMAIN st.scache THEN [st |-> st, id |-> st.scache[s]]
  ELSE LET id == st.next + 1
       IN [st |-> [st EXCEPT !.vols = Put(@, id, Vol(IF s > 0 THEN {s} ELSE {}, IF s < 0 THEN {-s} ELSE {}, "NONE", <<>>)),
                             !.next = id, !.scache = Put(@, s, id)],
           id |-> id]
PlusOf(ks) == { ks[i][2] : i \in { j \in 1..Len(ks) : IsLeaf(ks[j]) /\ ks[j][2] > 0 } }
MinusOf(ks) == { -ks[i][2] : i \in { j \in 1..Len(ks) : IsLeaf(ks[j]) /\ ks[j][2] < 0 } }
IsPure(k) == IsLeaf(k) \/ (k[1] = "*" /\ \A i \in 3..Len(k) : IsLeaf(k[i]))
SizeOf(k) == IF IsLeaf(k) THEN 1 ELSE Len(k)
(* largestPureIntersectionNode: first index of maximal size among the pure operands, 0 if none *)
Largest(ks) ==
  LET pure == { i \in 1..Len(ks) : IsPure(ks[i]) } IN
  IF pure = {} THEN 0
  ELSE CHOOSE i \in pure : /\ \A j \in pure : SizeOf(ks[j]) <= SizeOf(ks[i])
                           /\ \A j \in pure : j < i => SizeOf(ks[j]) < SizeOf(ks[i])
Without(ks, i) == SubSeq(ks, 1, i - 1) \o SubSeq(ks, i + 1, Len(ks))
NonZero(ids) == SelectSeq(ids, LAMBDA x : x # 0)
RECURSIVE ToT4(_, _), ToT4List(_, _, _, _), ConvRef(_, _), PotConvert(_, _)
ToT4List(ks, i, st, acc) ==
  IF i > Len(ks) THEN [st |-> st, ids |-> acc]
  ELSE LET r == ToT4(ks[i], st) IN ToT4List(ks, i + 1, r.st, Append(acc, r.id))
(* pot_convert: flag, (expand), optimise, to_t4 *)
PotConvert(tree, st) ==
  LET f == FlagT(tree, st.next)
      o == OptT(f.t)
      st1 == [st EXCEPT !.next = f.next]
  IN IF IsNone(o) THEN [st |-> st1, id |-> 0] ELSE ToT4(o, st1)
(* convert_cellref: cached unless the referenced cell turned out empty *)
ConvRef(k, st) ==
  IF k \in DOMAIN st.ccache /\ st.ccache[k] # 0 THEN [st |-> st, id |-> st.ccache[k]]
  ELSE LET r == PotConvert(st.cells[k], st)
       IN [st |-> [r.st EXCEPT !.ccache = Put(@, k, r.id)], id |-> r.id]
ToT4(t, st) ==
  IF IsLeaf(t) THEN ConvSurf(t[2], st)
  ELSE IF IsRef(t) THEN ConvRef(t[2], st)
  ELSE
    LET pid == t[2]  ks == Kids(t)
        refs == SelectSeq(ks, IsRef)
    IN
    IF t[1] = "*" THEN
      LET r == ToT4List(SelectSeq(ks, LAMBDA k : ~IsAtom(k)) \o refs, 1, st, <<>>) IN
      IF \E i \in 1..Len(r.ids) : r.ids[i] = 0 THEN [st |-> r.st, id |-> 0]
      ELSE [st |-> [r.st EXCEPT !.vols = Put(@, pid, Vol(PlusOf(ks), MinusOf(ks),
                                                       IF r.ids = <<>> THEN "NONE" ELSE "INTE", r.ids))],
            id |-> pid]
    ELSE
      LET lg == Largest(ks) IN
      IF lg = 0 THEN
        LET r == ToT4List(SelectSeq(ks, LAMBDA k : ~IsRef(k)) \o refs, 1, st, <<>>)  ids == NonZero(r.ids) IN
        IF ids = <<>> THEN [st |-> r.st, id |-> 0]
        ELSE [st |-> [r.st EXCEPT !.vols = Put(@, pid, Vol({U0}, {U1}, "UNION", ids))], id |-> pid]
      ELSE
        LET rm == ToT4(ks[lg], st)
            (* the other operands, cell references included, then the cell references once more *)
            r == ToT4List(Without(ks, lg) \o refs, 1, rm.st, <<>>)
            ids == NonZero(r.ids)
            mv == r.st.vols[rm.id]
        IN [st |-> [r.st EXCEPT !.vols = Put(@, pid, Vol(mv.plus, mv.minus,
                                                         IF ids = <<>> THEN "NONE" ELSE "UNION", ids))],
            id |-> pid]
EmptyState(next, cells) == [vols |-> << >>, next |-> next, scache |-> << >>, ccache |-> << >>, cells |-> cells]

(***************************************************************************)
(* remove_empty_volumes / remove_unused_volumes (with renumbered helpers)   *)
(***************************************************************************)
Empty(v) == v.plus \cap v.minus # {}
RECURSIVE PruneLoop(_, _, _)
PruneLoop(vs, toRemove, fuel) ==
  IF toRemove = {} \/ fuel = 0 THEN vs
  ELSE
    LET gone == { id \in toRemove : vs[id].op # "UNION" }
        patched == [id \in DOMAIN vs \ gone |->
                      IF id \in toRemove THEN [vs[id] EXCEPT !.plus = {Rep(U0)}, !.minus = {Rep(U1)}] ELSE vs[id]]
        upd == [id \in DOMAIN patched |->
                  LET v == patched[id] IN
                  IF v.op = "UNION"
                  THEN LET na == SelectSeq(v.args, LAMBDA x : x \notin gone)
                       IN IF na = <<>> THEN [v EXCEPT !.op = "NONE", !.args = <<>>] ELSE [v EXCEPT !.args = na]
                  ELSE v]
        next == { id \in DOMAIN upd : upd[id].op = "INTE" /\ \E x \in ToSet(upd[id].args) : x \in gone }
    IN PruneLoop(upd, next, fuel - 1)
DedupVols(vols) == [id \in DOMAIN vols |-> [vols[id] EXCEPT !.plus = { Rep(s) : s \in @ }, !.minus = { Rep(s) : s \in @ }]]
PruneVols(vols) == PruneLoop(vols, { id \in DOMAIN vols : Empty(vols[id]) }, 20)
UnusedVols(vols) == LET used == UNION { ToSet(vols[id].args) : id \in DOMAIN vols }
                    IN [id \in { x \in DOMAIN vols : ~vols[x].fict \/ x \in used } |-> vols[id]]
=============================================================================
