------------------------------- MODULE GenLat -------------------------------
(***************************************************************************)
(* Generator of rectangular (LAT=1) lattices for C06.  The unit cell is    *)
(* built FROM its base vectors a_1..a_k (k = 1, 2, 3; orthogonal or skew,  *)
(* any orientation): pair d of bounding planes has normal n_d orthogonal   *)
(* to the other base vectors and passes through c0 +- a_d/2, so that       *)
(*   (L1) a_d carries the second plane of pair d onto the first, and       *)
(*   (L2) a_d is parallel to the planes of every other pair                *)
(* hold by construction; LatticeVecsOK states them and TLC checks them on  *)
(* every generated deck.  The cell card may list either plane of a pair    *)
(* first: the positive index direction is across the FIRST-listed one.     *)
(* Fill: index ranges (negative and degenerate included), an array over    *)
(* {0, own universe, 2, 3} read first index fastest - built one entry per  *)
(* step - or a single FILL=n with --lattice ranges; optional FILL          *)
(* transformation; the container may place the lattice with a              *)
(* transformation of its own.                                              *)
(***************************************************************************)
EXTENDS Geom, TLC, Json

CONSTANT Lvl

Card(n, k, p) == [n |-> n, k |-> k, p |-> p, d |-> 1, tr |-> 0, bc |-> "", hlen |-> 0, flen |-> 0]
IdM == <<1,0,0, 0,1,0, 0,0,1>>
Tr(o, m) == [o |-> o, m |-> m]
NoTr == Tr(<<0,0,0>>, IdM)

(* base-vector triples (real vectors, even entries so that all plane offsets are integers) *)
Bases3 == { << <<2,0,0>>, <<0,2,0>>, <<0,0,2>> >>, << <<0,2,0>>, <<2,0,0>>, <<0,0,2>> >>,
            << <<2,0,0>>, <<2,2,0>>, <<0,0,2>> >>, << <<0,0,2>>, <<0,-2,0>>, <<2,0,0>> >>,
            << <<2,0,0>>, <<0,2,0>>, <<0,2,2>> >>, << <<-2,0,0>>, <<0,2,0>>, <<0,0,4>> >> }
Bases == { <<b[1]>> : b \in Bases3 } \cup { <<b[1], b[2]>> : b \in Bases3 } \cup Bases3
Normals(b) ==
  IF Len(b) = 1 THEN << b[1] >>
  ELSE IF Len(b) = 2 THEN LET z == Cross(b[1], b[2]) IN << Cross(b[2], z), Cross(z, b[1]) >>
  ELSE << Cross(b[2], b[3]), Cross(b[3], b[1]), Cross(b[1], b[2]) >>
C0s == IF Lvl = 1 THEN { <<0,0,0>> } ELSE { <<0,0,0>>, <<1,0,0>>, <<0,-1,1>> }
Ranges == { <<-1, 1>>, <<0, 1>>, <<-2, -1>>, <<0, 0>>, <<-1, 0>> }
TrSet == { Tr(<<0,0,0>>, <<0,1,0, -1,0,0, 0,0,1>>), Tr(<<1,0,0>>, IdM), Tr(<<0,0,0>>, <<-1,0,0, 0,-1,0, 0,0,1>>),
           Tr(<<0,1,0>>, <<0,0,1, 1,0,0, 0,1,0>>) }

VARIABLES pc, base, c0, first, ranges, arr, ftr, ctr, latopt, flip, compl, ltr
vars == <<pc, base, c0, first, ranges, arr, ftr, ctr, latopt, flip, compl, ltr>>
Init == /\ pc = "cell" /\ base = << <<2,0,0>> >> /\ c0 = <<0,0,0>> /\ first = <<1>> /\ ranges = <<>>
        /\ arr = <<>> /\ ftr = [has |-> FALSE, tr |-> NoTr] /\ ctr = [has |-> FALSE, tr |-> NoTr] /\ latopt = FALSE
        /\ flip = <<>> /\ compl = FALSE /\ ltr = [has |-> FALSE, tr |-> NoTr]

(* first[d] = 1: the plane through c0 + a_d/2 is listed first; -1: the other one. *)
(* One small choice per step (TLC -simulate enumerates all successors of a step).  *)
Cell == /\ pc = "cell"
        /\ \E b \in Bases, c \in C0s : base' = b /\ c0' = c
        /\ first' = <<>> /\ ranges' = <<>> /\ arr' = <<>> /\ flip' = <<>> /\ pc' = "orient"
        /\ UNCHANGED <<ftr, ctr, latopt, compl, ltr>>
Orient == /\ pc = "orient" /\ Len(first) < Len(base)
          /\ \E f \in {-1, 1}, r \in Ranges, g \in {<<1, 1>>, <<1, -1>>, <<-1, 1>>} :
                first' = Append(first, f) /\ ranges' = Append(ranges, r) /\ flip' = Append(flip, g)
          /\ UNCHANGED <<pc, base, c0, arr, ftr, ctr, latopt, compl, ltr>>
Trs == /\ pc = "orient" /\ Len(first) = Len(base)
       /\ \E ft \in { [has |-> FALSE, tr |-> NoTr] } \cup { [has |-> TRUE, tr |-> t] : t \in TrSet },
             ct \in { [has |-> FALSE, tr |-> NoTr] } \cup { [has |-> TRUE, tr |-> t] : t \in TrSet },
             lo \in BOOLEAN, cp \in BOOLEAN,
             lt \in { [has |-> FALSE, tr |-> NoTr] } \cup { [has |-> TRUE, tr |-> t] : t \in TrSet } :
            (* a FILL transformation of the whole lattice can only be written on the form FILL=n (completed by --lattice) *)
            /\ (ft.has => lo)
            /\ ftr' = ft /\ ctr' = ct /\ latopt' = lo /\ compl' = cp /\ ltr' = lt
       /\ pc' = "fill" /\ UNCHANGED <<base, c0, first, ranges, arr, flip>>
Size == LET RECURSIVE Pr(_) Pr(d) == IF d = 0 THEN 1 ELSE (ranges[d][2] - ranges[d][1] + 1) * Pr(d - 1) IN Pr(Len(ranges))
Fill == /\ pc = "fill" /\ Len(arr) < Size
        /\ \E u \in IF latopt THEN (IF arr = <<>> THEN {2, 3} ELSE {arr[1]}) ELSE {0, 1, 2, 3} : arr' = Append(arr, u)
        /\ UNCHANGED <<pc, base, c0, first, ranges, ftr, ctr, latopt, flip, compl, ltr>>
Done == /\ pc = "fill" /\ Len(arr) = Size /\ pc' = "emit"
        /\ UNCHANGED <<base, c0, first, ranges, arr, ftr, ctr, latopt, flip, compl, ltr>>

(* the planes: surface number 100 + 2d-1 through c0 + a_d/2, 100 + 2d through c0 - a_d/2 *)
N == Normals(base)
Det(d) == Dot(N[d], base[d])
Off(d, s) == (2 * Dot(N[d], c0) + s * Det(d)) \div 2
(* the card of plane (d, s) may be written with all four coefficients negated (flip = -1): same locus, *)
(* opposite sense - the two planes of a pair then have antiparallel normals                             *)
G(d, s) == IF s = 1 THEN flip[d][1] ELSE flip[d][2]
PlaneCard(d, s) == Card(100 + 2*d - (IF s = 1 THEN 1 ELSE 0), "p",
                        <<G(d, s)*N[d][1], G(d, s)*N[d][2], G(d, s)*N[d][3], G(d, s)*Off(d, s)>>)
(* sense of the unit cell with respect to plane (d, s): inside is towards c0 *)
Leaf(d, s) == LET n == 100 + 2*d - (IF s = 1 THEN 1 ELSE 0)
                  (* value of the plane function at c0 is  -s*Det/2 *)
              IN <<"S", IF s * Det(d) * G(d, s) > 0 THEN -n ELSE n, 0>>
CellGeom == <<"*">> \o [i \in 1..(2 * Len(base)) |->
                          LET d == (i + 1) \div 2  s == IF i % 2 = 1 THEN first[d] ELSE -first[d] IN Leaf(d, s)]
(* the cell's own TRCL turns the whole lattice: the base vectors are turned with it *)
LVecs == [d \in 1..Len(base) |-> VecToMain(ltr.tr, Scale(2 * first[d], base[d]))]   \* doubled, positive index direction

(* design-level property of the construction (L1, L2) *)
LatticeVecsOK ==
  pc = "emit" =>
    \A d \in 1..Len(base) :
      /\ \A e \in 1..Len(base) : e # d => Dot(N[e], base[d]) = 0
      /\ Off(d, 1) - Off(d, -1) = Dot(N[d], base[d])
      /\ Det(d) # 0

S(n) == <<"S", n, 0>>
PlainCell(n, geom, u, mat) ==
  [n |-> n, geom |-> geom, u |-> u, imp |-> 1, fill |-> 0, lat |-> 0, mat |-> mat,
   hasftr |-> FALSE, ftr |-> NoTr, hastrcl |-> FALSE, trcl |-> NoTr,
   lranges |-> <<>>, lunivs |-> <<>>, lvecs |-> <<>>, latopt |-> FALSE]
Deck ==
  LET lc == [PlainCell(10, CellGeom, 1, 3) EXCEPT !.lat = 1, !.lranges = ranges, !.lunivs = arr, !.lvecs = LVecs,
                                                   !.hasftr = ftr.has, !.ftr = ftr.tr, !.latopt = latopt, !.hastrcl = ltr.has, !.trcl = ltr.tr,
                                                   !.fill = IF latopt THEN arr[1] ELSE 0]
      world == << [PlainCell(1, S(-1), 0, 0) EXCEPT !.fill = 1, !.hasftr = ctr.has, !.ftr = ctr.tr],
                  [PlainCell(2, S(1), 0, 0) EXCEPT !.imp = 0] >>
      u2 == << PlainCell(21, <<"*", S(-21), S(-22)>>, 2, 1), PlainCell(22, <<"C", 21>>, 2, 2) >>
      u3 == << PlainCell(31, S(-23), 3, 2), PlainCell(32, S(23), 3, 0) >>
      planes == [i \in 1..(2 * Len(base)) |-> PlaneCard((i + 1) \div 2, IF i % 2 = 1 THEN 1 ELSE -1)]
      (* the pattern of the integration deck lattice_complement: a cell "#lattice" in the lattice's universe; *)
      (* the lattice fills its whole universe, so that cell is never reached (convention 7)                  *)
      cc == IF compl THEN << PlainCell(11, <<"C", 10>>, 1, 1) >> ELSE <<>>
  IN [cells |-> world \o <<lc>> \o cc \o u2 \o u3,
      surfs |-> << Card(1, "so", <<6>>), Card(21, "px", <<0>>), Card(22, "py", <<0>>), Card(23, "pz", <<0>>) >> \o planes]
Emit == pc = "emit" /\ PrintT(ToJson(Deck)) /\ pc' = "done"
        /\ UNCHANGED <<base, c0, first, ranges, arr, ftr, ctr, latopt, flip, compl, ltr>>
Next == Cell \/ Orient \/ Trs \/ Fill \/ Done \/ Emit
=============================================================================
