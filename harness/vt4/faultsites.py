"""C17 at every applicable card: the projection of an abstract deck read by FaultSites.tla, the injection of
one fault record into the abstract deck, and the pool of valid generated decks the faults are injected into."""
import copy
import json
import random
import shutil

from . import adeck, conv, core, tlc


def leaves(t):
    """Signed-surface leaves of a cell expression in preorder (the same objects, so they can be edited)."""
    k = t[0]
    if k == 'S':
        return [t]
    if k == 'C':
        return []
    if k == 'N':
        return leaves(t[1])
    out = []
    for kid in t[1:]:
        out += leaves(kid)
    return out


def view(deck):
    """What FaultSites.tla reads of an abstract deck."""
    cells = []
    for c in deck['cells']:
        arr = bool(c['lat'] and c['lranges'] and not c.get('latopt'))
        cells.append({
            'n': c['n'], 'imp': c['imp'], 'u': c['u'], 'fill': c['fill'], 'lat': c['lat'], 'like': c.get('like', 0),
            'leaves': [] if c.get('like') else [[lf[1], lf[2]] for lf in leaves(c['geom'])],
            'ftr': 0 if not c['hasftr'] else (1 if c['ftrspell'] == 'num' else 2),
            'trcl': 0 if not c['hastrcl'] else (1 if c.get('trclnum') else 2),
            'trclnum': c.get('trclnum', 0) or 0,
            'lunivs': list(c['lunivs']) if c['lat'] else [],
            'nranges': len(c['lranges']) if arr else 0,
            'latopt': bool(c['lat'] and c.get('latopt')),
            'nvecs': len(c['lvecs']) if c['lat'] else 0,
            'ranges': [list(r) for r in c['lranges']] if c['lat'] else []})
    mats = []
    for m in deck.get('mats', []):
        mats.append({'n': m['n'], 'nfrac': len(_fraction_positions(m['tokens']))})
    return {'surfs': [{'n': s['n'], 'k': s['k'], 'np': len(s['p']), 'tr': s.get('tr', 0) or 0} for s in deck['surfs']],
            'cells': cells, 'trs': [{'n': t['n']} for t in deck.get('trs', [])], 'mats': mats,
            'impcards': [len(card['tokens']) for card in deck.get('impcards', [])]}


def _fraction_positions(tokens):
    """Indices of the fraction entries of a material card (ZAID fraction pairs before any keyword)."""
    pos = []
    i = 0
    while i + 1 < len(tokens):
        if '=' in tokens[i] or '=' in tokens[i + 1]:
            break
        try:
            if adeck.mcnp_float(tokens[i + 1]) != 0:
                pos.append(i + 1)
        except ValueError:
            break
        i += 2
    return pos


def inject(deck, f):
    """Apply fault record f to a copy of the abstract deck; returns (deck, opts)."""
    d = copy.deepcopy(deck)
    opts = list(d.get('opts', []))
    cls, var, a, b = f['class'], f['variant'], f['a'], f['b']
    if cls in ('surface_count', 'body_count'):
        s = d['surfs'][a - 1]
        n = int(var)
        s['p'] = s['p'][:n] if n < len(s['p']) else list(s['p']) + [s.get('d', 1)] * (n - len(s['p']))
    elif cls == 'mnemonic':
        # 'suffix': the card's own three-letter mnemonic with one more letter (sphe, rppe, c/ze): no mnemonic either
        d['surfs'][a - 1]['k'] = (d['surfs'][a - 1]['k'] + 'e') if var == 'suffix' else var
    elif cls == 'facet':
        leaves(d['cells'][a - 1]['geom'])[b - 1][2] = int(var)
    elif cls == 'tr_m':
        if f['site'] == 'trcard':
            t = d['trs'][a - 1]
            t['spell'] = 'starm' if t.get('spell') == 'star' else '13m'
        elif f['site'] == 'fill_inline':
            c = d['cells'][a - 1]
            c['ftrspell'] = 'starm' if c['ftrspell'] == 'star' else '13m'
        else:
            c = d['cells'][a - 1]
            c['trclspell'] = 'starm' if c['trclspell'] == 'star' else '13m'
    elif cls in ('lattice_option', 'lattice_argument'):
        c = d['cells'][a - 1]
        idx = [i for i in range(0, len(opts) - 1) if opts[i] == '--lattice' and opts[i + 1].split(',')[0] == str(c['n'])]
        if not idx:
            raise KeyError('no --lattice option for cell %d' % c['n'])
        i = idx[0]
        rngs = opts[i + 1].split(',')[1:]
        if cls == 'lattice_option':
            if var == 'absent':
                del opts[i:i + 2]
            elif var == 'other_cell':
                opts[i + 1] = ','.join([str(c['n'] + 7000)] + rngs)
            else:      # too_few_ranges / too_many_ranges: the ranges chosen by FaultSites.tla
                opts[i + 1] = ','.join([str(c['n'])] + ['%d:%d' % (lo, hi) for lo, hi in f['arg']])
        else:
            first = rngs[0]
            lo, hi = first.split(':')
            good = opts[i + 1]
            shadowed = var.endswith('_then_good')        # the malformed option is followed by the well-formed one
            var = var[:-len('_then_good')] if shadowed else var
            opts[i + 1] = {'no_ranges': str(c['n']),
                           'four_ranges': ','.join([str(c['n'])] + (rngs + ['0:0'] * 4)[:4]),
                           'cell_not_int': ','.join(['c%d' % c['n']] + rngs),
                           'bound_not_int': ','.join([str(c['n']), lo + ':x'] + rngs[1:]),
                           'double_colon': ','.join([str(c['n']), lo + '::' + hi] + rngs[1:]),
                           'empty_range': str(c['n']) + ','}[var]
            if shadowed:
                opts[i + 2:i + 2] = ['--lattice', good]
    elif cls == 'fill_length':
        c = d['cells'][a - 1]
        if var == 'one_less':
            c['lunivs'] = c['lunivs'][:-1]
        elif var == 'one_more_repeat':
            c['array_extra'] = ['r']          # the surplus entry written with the repeat shorthand
        elif var == 'one_more_nrepeat':
            c['array_extra'] = ['1r']
        elif var in ('overshoot_repeat', 'overshoot_nrepeat'):
            # the last shorthand runs one entry past the declared size: `.. x` -> `.. w 2r` / `.. w r r`
            c['lunivs'] = c['lunivs'][:-1]
            c['array_extra'] = ['2r'] if var == 'overshoot_repeat' else ['r', 'r']
        else:
            c['lunivs'] = list(c['lunivs']) + [c['lunivs'][-1]]
    elif cls == 'imp_length':
        cards = d['impcards']
        if var == 'second_shorter':
            cards[1]['tokens'] = cards[1]['tokens'][:-1]
            while cards[1]['tokens'] and cards[1]['tokens'][-1].lower().endswith(('i', 'log')):
                cards[1]['tokens'] = cards[1]['tokens'][:-1]
        elif var == 'second_longer':
            cards[1]['tokens'] = list(cards[1]['tokens']) + ['1']
        else:
            for card in cards:
                card['tokens'] = card['tokens'][:-1]
                # an interpolation needs its end value: do not turn the fault into a dangling 'nI'
                while card['tokens'] and card['tokens'][-1].lower().endswith(('i', 'log')):
                    card['tokens'] = card['tokens'][:-1]
    elif cls == 'mixed_sign':
        m = d['mats'][a - 1]
        pos = _fraction_positions(m['tokens'])
        i = pos[0] if var == 'first' else pos[-1]
        tok = m['tokens'][i]
        m['tokens'][i] = tok[1:] if tok.startswith('-') else '-' + tok.lstrip('+')
    else:
        raise KeyError(cls)
    return d, opts


# ---------------------------------------------------------------------------
# pool of valid decks

MATCARDS = [['13027', '0.5', '8016', '0.5'], ['1001', '-0.2', '8016', '-0.3', '26056', '-0.5'],
            ['1001.70c', '2', '8016.70c', '1'], ['92235', '-0.05', '92238', '-0.95']]


def pool(chk, thorough, seed):
    """Valid abstract decks of every generator family (each with its options)."""
    from .checks import c02, c03, c04, c06, c12, c15, common_bool, common_univ
    rng = random.Random(seed)
    out = []

    def take(decks, n, family):
        decks = list(decks)
        rng.shuffle(decks)
        for d in decks[:n]:
            d = adeck.normalise(d)
            d['family'] = family
            d['opts'] = adeck.lattice_opts(d)
            out.append(d)

    q = (lambda a, b: b) if thorough else (lambda a, b: a)
    cards = c02.gen_cards(chk, 1, None, seed) + c02.gen_cards(chk, 2, q(600, 4000), seed + 1)
    take([c02.surf_deck(r['card']) for r in cards], q(150, 3000), 'surface')
    res = tlc.run('GenBody', 'INIT Init\nNEXT Next\nCONSTANTS Lvl = 1\nCHECK_DEADLOCK FALSE\n', workers=16, timeout=1500)
    chk.add_tlc(res)
    bodies = [r for r in tlc.printed_json(res['stdout']) if isinstance(r, dict) and 'card' in r]
    take([c03.body_deck(r['card'], rng.randint(0, r['nfacets'])) for r in bodies], q(120, 1500), 'body')
    res = tlc.run('GenTr', 'INIT Init\nNEXT Next\nCONSTANTS Lvl = 1\nCHECK_DEADLOCK FALSE\n', workers=16, timeout=1500)
    chk.add_tlc(res)
    trs = [r for r in tlc.printed_json(res['stdout']) if isinstance(r, dict) and 'carrier' in r]
    take([c04.build_deck(r) for r in trs], q(200, 3000), 'transformation')
    univ = common_univ.generate(chk, False, seed + 17, nquick=q(400, 4000))
    univ = [adeck.decorate_materials(adeck.normalise(d), rng, spellings='canonical') for d in univ]
    take(univ, q(150, 2000), 'universe')
    take(c06.gen(chk, 'GenLat', False, seed, q(300, 3000), 0), q(120, 1500), 'lattice')
    take(c06.gen(chk, 'GenHex', False, seed, q(200, 1500), 0), q(60, 700), 'hexlattice')
    take(c12.gen_imp(chk, False, seed), q(80, 1000), 'importance')
    take(c15.like_decks(chk, False, seed), q(50, 600), 'like')
    bdecks = common_bool.generate(chk, False, seed + 3, nsim_quick=q(200, 1500))
    take(bdecks, q(80, 1000), 'boolean')
    # a lattice cell written LIKE n BUT U=m (FILL=n lattices: both cells need their --lattice ranges)
    for k in range(q(6, 40)):
        w = rng.choice([1, 2])
        r1 = [[rng.choice([-1, 0]), rng.choice([0, 1])], [0, rng.choice([0, 1])]][:rng.choice([1, 2])]
        nsurf = 2 * len(r1)
        geom = ['*', ['S', -11, 0], ['S', 12, 0]] + ([['S', -13, 0], ['S', 14, 0]] if len(r1) == 2 else [])
        lat = {'geom': geom, 'lat': 1, 'lranges': r1, 'lunivs': [7] * ((r1[0][1] - r1[0][0] + 1) * ((r1[1][1] - r1[1][0] + 1) if len(r1) == 2 else 1)),
               'lvecs': [[4 * w, 0, 0], [0, 4 * w, 0]][:len(r1)], 'latopt': True, 'fill': 7}
        d = adeck.normalise({'surfs': [{'n': 1, 'k': 'so', 'p': [5]}, {'n': 2, 'k': 'so', 'p': [8]},
                                       {'n': 11, 'k': 'px', 'p': [w]}, {'n': 12, 'k': 'px', 'p': [-w]},
                                       {'n': 13, 'k': 'py', 'p': [w]}, {'n': 14, 'k': 'py', 'p': [-w]}, {'n': 21, 'k': 'pz', 'p': [0]}],
                             'cells': [{'n': 1, 'geom': ['S', -1, 0], 'fill': 1}, {'n': 2, 'geom': ['*', ['S', 1, 0], ['S', -2, 0]], 'fill': 3},
                                       {'n': 3, 'geom': ['S', 2, 0], 'imp': 0},
                                       dict(lat, n=10, u=1), dict(lat, n=20, u=3, like=10, but=['u=3']),
                                       {'n': 21, 'geom': ['S', -21, 0], 'u': 7}, {'n': 22, 'geom': ['S', 21, 0], 'u': 7}]})
        d['family'] = 'like_lattice'
        d['opts'] = adeck.lattice_opts(d)
        out.append(d)
    # explicit material cards (two or three fractions of one sign) for the decks that use materials
    for d in out:
        mats = sorted({c['mat'] for c in d['cells'] if c['mat']})
        if mats and not d.get('mats'):
            d['mats'] = [{'n': m, 'tokens': list(rng.choice(MATCARDS))} for m in mats]
            for c in d['cells']:
                if c['mat'] and not c['rhotxt']:
                    c['rhotxt'] = '-1.0'
    return out


# ---------------------------------------------------------------------------
# the sites of every deck (TLC), the runs, the verdicts (TLC)

def sites_of(chk, decks):
    """tid -> list of fault records, computed by FaultSites.tla."""
    sd = tlc.scratch_dir('c17s')
    try:
        core.write_blocks(sd, [{'tid': i + 1, 'deck': view(d)} for i, d in enumerate(decks)])
        res = tlc.run('FaultSites', 'INIT Init\nNEXT Next\nCHECK_DEADLOCK FALSE\n', env={'TRACE_DIR': sd}, workers=16,
                      timeout=1800)
    finally:
        shutil.rmtree(sd, ignore_errors=True)
    chk.add_tlc(res)
    out, n = {}, 0
    for blk in core.collect_blocks(res):
        n += blk['n']
        for rec in blk['sites']:
            out[rec['tid']] = sorted(rec['faults'], key=lambda f: json.dumps(f, sort_keys=True))
    if n != len(decks):
        raise tlc.TLCFailure('FaultSites read %d of %d decks' % (n, len(decks)))
    return out


def run_site(job):
    tid, deck, fault = job
    if fault is None:
        text = adeck.concretise(deck)
        r = conv.convert(text, deck.get('opts', []))
        return {'tid': tid, 'result': r['result'], 'err': r['error'], 'text': text, 'opts': deck.get('opts', [])}
    d, opts = inject(deck, fault)
    text = adeck.concretise(d)
    r = conv.convert(text, opts)
    return {'tid': tid, 'result': r['result'], 'err': r['error'], 'text': text, 'opts': opts,
            'diag': bool(r['error'] and r['error']['diag'])}
