"""TLC driver: run generator / design / trace specifications and parse results."""
import json
import os
import re
import shutil
import subprocess
import tempfile
import time

VERIF = os.path.dirname(os.path.dirname(os.path.dirname(os.path.abspath(__file__))))
SPEC = os.path.join(VERIF, 'spec')
SCRATCH = os.path.join(VERIF, 'scratch')
JAR = '/opt/veriftools/tla/tla2tools.jar:/opt/veriftools/tla/CommunityModules-deps.jar'


class TLCFailure(Exception):
    """TLC itself failed (parse error, evaluation error, timeout): machinery failure."""


def scratch_dir(prefix='run'):
    os.makedirs(SCRATCH, exist_ok=True)
    return tempfile.mkdtemp(prefix=prefix + '_', dir=SCRATCH)


def _string_literals(text):
    """Yield the contents of TLA+ string literals printed by PrintT (robust to
    lines interleaved by several workers)."""
    i, n = 0, len(text)
    while i < n:
        if text[i] == '"':
            j = i + 1
            buf = []
            while j < n and text[j] != '"':
                if text[j] == '\\' and j + 1 < n:
                    buf.append(text[j:j + 2])
                    j += 2
                else:
                    buf.append(text[j])
                    j += 1
            yield ''.join(buf)
            i = j + 1
        else:
            i += 1


def printed_json(stdout):
    """All JSON objects printed with PrintT(ToJson(...))."""
    out = []
    for lit in _string_literals(stdout):
        if not lit.startswith('{') and not lit.startswith('['):
            continue
        try:
            s = json.loads('"' + lit + '"')   # undo TLA+ escaping (same as JSON's)
            out.append(json.loads(s))
        except ValueError:
            continue
    return out


_STATS = re.compile(r'(\d+) states generated, (\d+) distinct states found')
_SIM = re.compile(r'The number of states generated: (\d+)')


def run(module, cfg, env=None, workers=16, simulate=None, depth=None, seed=None, timeout=1800,
        coverage=False, keep=False, heap=None, extra=()):
    """Run TLC on spec/<module>.tla with the configuration text `cfg`.
    Returns dict(stdout, generated, distinct, wall_s, ok, violation, coverage).
    Raises TLCFailure on parse/evaluation errors and timeouts."""
    sd = scratch_dir(module)
    cfgp = os.path.join(sd, module + '.cfg')
    with open(cfgp, 'w') as f:
        f.write(cfg)
    cmd = ['java', '-XX:+UseParallelGC', '-XX:ParallelGCThreads=4']
    if heap:
        cmd.append('-Xmx' + heap)
    cmd += ['-cp', JAR, 'tlc2.TLC', '-workers', str(workers), '-metadir', os.path.join(sd, 'meta'),
            '-noGenerateSpecTE', '-config', cfgp]
    if simulate is not None:
        cmd += ['-simulate', 'num=%d' % simulate]
        cmd += ['-depth', str(depth or 20)]
    if seed is not None:
        cmd += ['-seed', str(seed)]
    if coverage:
        cmd += ['-coverage', '1']
    cmd += list(extra)
    cmd.append(module + '.tla')
    e = dict(os.environ)
    if env:
        e.update({k: str(v) for k, v in env.items()})
    t0 = time.time()
    try:
        p = subprocess.run(cmd, cwd=SPEC, env=e, stdout=subprocess.PIPE, stderr=subprocess.STDOUT,
                           timeout=timeout, text=True)
    except subprocess.TimeoutExpired as exc:
        if not keep:
            shutil.rmtree(sd, ignore_errors=True)
        raise TLCFailure('TLC timeout after %ss on %s' % (timeout, module)) from exc
    wall = time.time() - t0
    out = p.stdout
    res = {'stdout': out, 'wall_s': wall, 'generated': 0, 'distinct': 0, 'ok': False,
           'violation': None, 'returncode': p.returncode, 'scratch': sd}
    m = None
    for m in _STATS.finditer(out):
        pass
    if m:
        res['generated'], res['distinct'] = int(m.group(1)), int(m.group(2))
    else:
        m = _SIM.search(out)
        if m:
            res['generated'] = res['distinct'] = int(m.group(1))
    if 'Invariant' in out and 'is violated' in out:
        res['violation'] = re.search(r'Invariant (\S+) is violated', out).group(1)
    elif 'Temporal properties were violated' in out or 'Action property' in out and 'violated' in out:
        res['violation'] = 'temporal'
    elif 'Assumption' in out and 'is false' in out:
        res['violation'] = 'assumption'
    finished = ('Model checking completed' in out or 'Finished in' in out
                or 'simulation' in out.lower() and p.returncode == 0)
    res['ok'] = finished and res['violation'] is None and p.returncode == 0
    if coverage:
        res['coverage'] = parse_coverage(out)
    hard = ('Parsing or semantic analysis failed' in out or 'TLC threw an unexpected exception' in out
            or 'Error: Evaluating' in out or 'The exception was a' in out
            or ('Error:' in out and res['violation'] is None and p.returncode != 0))
    if not keep:
        shutil.rmtree(sd, ignore_errors=True)
    if hard:
        raise TLCFailure('TLC failed on %s (rc=%s):\n%s' % (module, p.returncode, _tail(out)))
    return res


def _tail(out, n=60):
    lines = [l for l in out.splitlines() if not l.startswith(('Parsing file', 'Semantic processing',
                                                               'Linting of'))]
    return '\n'.join(lines[-n:])


def parse_coverage(out):
    """Per-action counts from -coverage 1: {action: (distinct, total)}"""
    cov = {}
    for m in re.finditer(r'<(\w+) line \d+, col \d+ to line \d+, col \d+ of module (\w+)>: (\d+):(\d+)', out):
        cov['%s!%s' % (m.group(2), m.group(1))] = (int(m.group(3)), int(m.group(4)))
    return cov


def sany(module):
    p = subprocess.run(['java', '-cp', JAR, 'tla2sany.SANY', module + '.tla'], cwd=SPEC,
                       stdout=subprocess.PIPE, stderr=subprocess.STDOUT, text=True)
    return p.returncode == 0 and 'Semantic errors' not in p.stdout and 'error' not in p.stdout.lower(), p.stdout
