"""Reader of written TRIPOLI-4 files and numeric evaluator of the 17 SURF types.

The adapter turns a file into (a) structure as *tokens* (ids, counts, words) that
T4Sem.tla parses and judges, (b) sense rows (sign of each SURF at each probe
point), (c) rationalised quadric coefficients of each polynomial SURF (value
witnesses, DESIGN.md section 5).  No judgement is made here.
"""
import math
import re
from fractions import Fraction

POLY_TYPES = {'PLANEX', 'PLANEY', 'PLANEZ', 'PLANE', 'SPHERE', 'CYLX', 'CYLY', 'CYLZ', 'CYL',
              'CONEX', 'CONEY', 'CONEZ', 'CONE', 'QUAD'}
TORUS_TYPES = {'TORUSX', 'TORUSY', 'TORUSZ'}
NPARAMS = {'PLANEX': 1, 'PLANEY': 1, 'PLANEZ': 1, 'PLANE': 4, 'SPHERE': 4, 'CYLX': 3, 'CYLY': 3,
           'CYLZ': 3, 'CYL': 7, 'CONEX': 4, 'CONEY': 4, 'CONEZ': 4, 'CONE': 7, 'QUAD': 10,
           'TORUSX': 6, 'TORUSY': 6, 'TORUSZ': 6}

_NUM = re.compile(r'^[-+]?(\d+\.?\d*|\.\d+)([eE][-+]?\d+)?$')


def tok_class(tok):
    """int / float / nan / word"""
    if re.match(r'^[-+]?\d+$', tok):
        return 'int'
    if _NUM.match(tok):
        return 'float'
    if tok.lower().lstrip('+-') in ('nan', 'inf', 'infinity'):
        return 'nan'
    return 'word'


def parse(text):
    """Parse the text of a written file.  Tolerant: anything unexpected is kept
    as-is in 'junk' so that the specification's FileValid can reject it."""
    t4 = {'surfs': [], 'transforms': [], 'vols': [], 'compo': None, 'geomcomp': None,
          'bc': None, 'junk': [], 'endg': False}
    lines = text.split('\n')
    i = 0
    section = 'pre'
    while i < len(lines):
        raw = lines[i]
        i += 1
        code, _, comment = raw.partition('//')
        tok = code.split()
        if not tok:
            continue
        head = tok[0]
        if section in ('pre', 'geom'):
            if head in ('LANG', 'TITLE', 'HASH_TABLE'):
                continue
            if head == 'GEOMETRY':
                section = 'geom'
                continue
            if head == 'TRANSFORM':
                t4['transforms'].append({'id': _int(tok[1]), 'kw': tok[2] if len(tok) > 2 else '',
                                         'p': tok[3:]})
                continue
            if head == 'SURF':
                s = {'id': _int(tok[1]), 'tr': None, 'comment': comment.strip()}
                rest = tok[2:]
                if rest and rest[0] == 'TRANSFORM':
                    s['tr'] = _int(rest[1])
                    rest = rest[2:]
                s['type'] = rest[0] if rest else ''
                s['ptoks'] = rest[1:]
                t4['surfs'].append(s)
                continue
            if head == 'VOLU':
                v = {'id': _int(tok[1]), 'toks': tok[2:], 'comment': comment.strip(),
                     'origin': [[int(a), int(b)] for a, b in
                                re.findall(r'\((-?\d+), (-?\d+)\)', comment)]}
                t4['vols'].append(v)
                continue
            if head == 'ENDG':
                t4['endg'] = True
                section = 'post'
                continue
            t4['junk'].append(raw)
            continue
        # after the geometry
        if head == 'COMPOSITION':
            j, block = _block(lines, i, 'END_COMPOSITION')
            t4['compo'] = _parse_compo(block)
            i = j
        elif head == 'GEOMCOMP':
            j, block = _block(lines, i, 'END_GEOMCOMP')
            t4['geomcomp'] = [l.split() for l in block if l.split()]
            i = j
        elif head == 'BOUNDARY_CONDITION':
            j, block = _block(lines, i, 'END_BOUNDARY_CONDITION')
            rows = [l.split() for l in block if l.split()]
            t4['bc'] = {'declared': rows[0][0] if rows else '', 'items': rows[1:]}
            i = j
        else:
            t4['junk'].append(raw)
    return t4


def _int(tok):
    try:
        return int(tok)
    except ValueError:
        return tok


def _block(lines, i, endword):
    block = []
    while i < len(lines):
        code = lines[i].split('//')[0]
        i += 1
        if code.split() and code.split()[0] == endword:
            return i, block
        block.append(code)
    return i, block + ['<<missing %s>>' % endword]


def _parse_compo(block):
    toks = ' '.join(block).split()
    compo = {'declared': toks[0] if toks else '', 'items': [], 'junk': []}
    k = 1
    while k < len(toks):
        typ = toks[k]
        try:
            if typ == 'POINT_WISE':
                temp, name, n = toks[k + 1], toks[k + 2], int(toks[k + 3])
                iso = [(toks[k + 4 + 2 * j], toks[k + 5 + 2 * j]) for j in range(n)]
                compo['items'].append({'type': typ, 'temp': temp, 'name': name, 'dens': None,
                                       'nb_atom': False, 'n': n, 'iso': iso})
                k += 4 + 2 * n
            elif typ == 'DENSITY':
                temp, name, dens = toks[k + 1], toks[k + 2], toks[k + 3]
                k2 = k + 4
                nb = False
                if toks[k2] == 'NB_ATOM':
                    nb = True
                    k2 += 1
                n = int(toks[k2])
                iso = [(toks[k2 + 1 + 2 * j], toks[k2 + 2 + 2 * j]) for j in range(n)]
                compo['items'].append({'type': typ, 'temp': temp, 'name': name, 'dens': dens,
                                       'nb_atom': nb, 'n': n, 'iso': iso})
                k = k2 + 1 + 2 * n
            else:
                compo['junk'].append(typ)
                k += 1
        except (IndexError, ValueError):
            compo['junk'].append(' '.join(toks[k:k + 6]))
            break
    return compo


# ---------------------------------------------------------------------------
# numeric semantics of SURF lines (DESIGN.md section 4, T4 side)

def surf_floats(s):
    return [float(x) for x in s['ptoks']]


def _transform_of(t4, s):
    if s['tr'] is None:
        return None
    for tr in t4['transforms']:
        if tr['id'] == s['tr']:
            p = [float(x) for x in tr['p']]
            return p[:3], [p[3:6], p[6:9], p[9:12]]
    raise KeyError('TRANSFORM %s not defined' % s['tr'])


def to_local(tr, p):
    """x_world = M x_local + t  =>  x_local = M^T (x_world - t)"""
    if tr is None:
        return p
    t, m = tr
    d = [p[k] - t[k] for k in range(3)]
    return [sum(m[r][c] * d[r] for r in range(3)) for c in range(3)]


def surf_value(t4, s, p):
    """Value of the surface function of SURF `s` at world point p (positive = PLUS side)."""
    a = surf_floats(s)
    typ = s['type']
    x, y, z = to_local(_transform_of(t4, s), p)
    if typ == 'PLANEX':
        return x - a[0]
    if typ == 'PLANEY':
        return y - a[0]
    if typ == 'PLANEZ':
        return z - a[0]
    if typ == 'PLANE':
        return a[0] * x + a[1] * y + a[2] * z + a[3]
    if typ == 'SPHERE':
        return (x - a[0]) ** 2 + (y - a[1]) ** 2 + (z - a[2]) ** 2 - a[3] ** 2
    if typ == 'CYLX':
        return (y - a[0]) ** 2 + (z - a[1]) ** 2 - a[2] ** 2
    if typ == 'CYLY':
        return (x - a[0]) ** 2 + (z - a[1]) ** 2 - a[2] ** 2
    if typ == 'CYLZ':
        return (x - a[0]) ** 2 + (y - a[1]) ** 2 - a[2] ** 2
    if typ == 'CYL':
        d = (x - a[0], y - a[1], z - a[2])
        u = a[4:7]
        uu = sum(c * c for c in u)
        du = sum(d[k] * u[k] for k in range(3))
        return sum(c * c for c in d) - du * du / uu - a[3] ** 2
    if typ in ('CONEX', 'CONEY', 'CONEZ', 'CONE'):
        d = (x - a[0], y - a[1], z - a[2])
        t2 = math.tan(math.radians(a[3])) ** 2
        u = {'CONEX': (1., 0., 0.), 'CONEY': (0., 1., 0.), 'CONEZ': (0., 0., 1.)}.get(typ) or a[4:7]
        uu = sum(c * c for c in u)
        du2 = sum(d[k] * u[k] for k in range(3)) ** 2 / uu
        return sum(c * c for c in d) - du2 - t2 * du2
    if typ == 'QUAD':
        return (a[0] * x * x + a[1] * y * y + a[2] * z * z + a[3] * x * y + a[4] * y * z
                + a[5] * z * x + a[6] * x + a[7] * y + a[8] * z + a[9])
    if typ in TORUS_TYPES:
        d = (x - a[0], y - a[1], z - a[2])
        ax = 'XYZ'.index(typ[-1])
        axial = d[ax]
        rho = math.sqrt(sum(d[k] ** 2 for k in range(3) if k != ax))
        big, b, c = a[3], a[4], a[5]
        return (rho - big) ** 2 / c ** 2 + axial ** 2 / b ** 2 - 1.0
    raise ValueError('unknown SURF type %r' % typ)


def sense(t4, s, p, eps=1e-9):
    v = surf_value(t4, s, p)
    scale = 1.0 + sum(abs(c) for c in p) ** 2
    if not math.isfinite(v):
        return 0
    if abs(v) <= eps * scale:
        return 0
    return 1 if v > 0 else -1


def sense_rows(t4, pts2, real_points=None):
    """pts2: probe points in doubled integer coordinates.  One row per SURF line.
    real_points: evaluate at these float points instead (covariance runs)."""
    pts = real_points if real_points is not None else [(a / 2.0, b / 2.0, c / 2.0) for a, b, c in pts2]
    rows = []
    for s in t4['surfs']:
        try:
            row = [sense(t4, s, p) for p in pts]
        except (ValueError, KeyError, IndexError, ZeroDivisionError):
            row = [0] * len(pts)
        rows.append({'id': s['id'], 'row': row})
    return rows


_UNISOLVENT = [(0, 0, 0), (1, 0, 0), (0, 1, 0), (0, 0, 1), (-1, 0, 0), (0, -1, 0), (0, 0, -1),
               (1, 1, 0), (0, 1, 1), (1, 0, 1)]


def quadric_coeffs(t4, s):
    """GQ-ordered coefficients (A B C D E F G H J K) of a polynomial SURF, by
    interpolation of surf_value on a unisolvent point set (so that the same
    formulae decide senses and coefficients)."""
    if s['type'] not in POLY_TYPES:
        return None
    v = {p: surf_value(t4, s, p) for p in _UNISOLVENT}
    k = v[(0, 0, 0)]
    aa = (v[(1, 0, 0)] + v[(-1, 0, 0)]) / 2 - k
    bb = (v[(0, 1, 0)] + v[(0, -1, 0)]) / 2 - k
    cc = (v[(0, 0, 1)] + v[(0, 0, -1)]) / 2 - k
    g = (v[(1, 0, 0)] - v[(-1, 0, 0)]) / 2
    h = (v[(0, 1, 0)] - v[(0, -1, 0)]) / 2
    j = (v[(0, 0, 1)] - v[(0, 0, -1)]) / 2
    d = v[(1, 1, 0)] - aa - bb - g - h - k
    e = v[(0, 1, 1)] - bb - cc - h - j - k
    f = v[(1, 0, 1)] - aa - cc - g - j - k
    return [aa, bb, cc, d, e, f, g, h, j, k]


def rationalise(x, maxden=20000, tol=1e-9):
    fr = Fraction(x).limit_denominator(maxden)
    if abs(float(fr) - x) <= tol * max(1.0, abs(x)):
        return [fr.numerator, fr.denominator]
    return None


def witness(t4, s):
    """Rationalised ratios of the quadric coefficients to a pivot coefficient.
    {'id', 'pivot' (1-based), 'sgn', 'ratios': [[num, den] | [0,0] if irrational]}"""
    q = quadric_coeffs(t4, s)
    if q is None or not all(math.isfinite(c) for c in q):
        return {'id': s['id'], 'pivot': 0, 'sgn': 0, 'ratios': []}
    piv = max(range(10), key=lambda i: abs(q[i]))
    if q[piv] == 0:
        return {'id': s['id'], 'pivot': 0, 'sgn': 0, 'ratios': []}
    ratios = []
    for c in q:
        r = rationalise(c / q[piv])
        ratios.append(r if r is not None else [0, 0])
    return {'id': s['id'], 'pivot': piv + 1, 'sgn': 1 if q[piv] > 0 else -1, 'ratios': ratios}


# ---------------------------------------------------------------------------
# projection to the JSON handed to TLC (small ints and strings only)

WORDS = ('EQUA', 'PLUS', 'MINUS', 'UNION', 'INTE', 'FICTIVE', 'ENDV')


def vol_tokens(v):
    """kinds / values of the VOLU body (after the id, up to and incl. ENDV)."""
    kinds, vals = [], []
    for tok in v['toks']:
        if tok in WORDS:
            kinds.append(tok)
            vals.append(0)
        elif tok_class(tok) == 'int' and abs(int(tok)) < 2 ** 30:
            kinds.append('NUM')
            vals.append(int(tok))
        else:
            kinds.append('BAD')
            vals.append(0)
    return kinds, vals


def project(t4, pts2=None, with_witness=False, real_points=None):
    """Abstract, TLC-friendly view of a parsed file."""
    surfs = []
    for s in t4['surfs']:
        classes = [tok_class(t) for t in s['ptoks']]
        finite = all(c in ('int', 'float') for c in classes)
        if finite:
            finite = all(math.isfinite(float(t)) for t in s['ptoks'])
        surfs.append({'id': s['id'] if isinstance(s['id'], int) else -1,
                      'type': s['type'], 'nparam': len(s['ptoks']),
                      'nexpected': NPARAMS.get(s['type'], -1), 'finite': bool(finite),
                      'tr': s['tr'] if isinstance(s['tr'], int) else 0})
    trs = []
    for tr in t4['transforms']:
        ok = tr['kw'] == 'MATRIX' and len(tr['p']) == 12 and \
            all(tok_class(t) in ('int', 'float') and math.isfinite(float(t)) for t in tr['p'])
        trs.append({'id': tr['id'] if isinstance(tr['id'], int) else -1, 'ok': bool(ok)})
    vols = []
    for v in t4['vols']:
        kinds, vals = vol_tokens(v)
        vols.append({'id': v['id'] if isinstance(v['id'], int) else -1, 'tk': kinds, 'tv': vals,
                     'origin': v['origin']})
    out = {'surfs': surfs, 'trs': trs, 'vols': vols, 'endg': t4['endg'],
           'njunk': len(t4['junk'])}
    # compositions
    if t4['compo'] is not None:
        c = t4['compo']
        out['compo'] = {'present': True,
                        'declared': int(c['declared']) if tok_class(c['declared']) == 'int' else -1,
                        'names': [it['name'] for it in c['items']],
                        'ncounts_ok': all(it['n'] == len(it['iso']) for it in c['items']),
                        'finite': all(tok_class(val) in ('int', 'float') and
                                      math.isfinite(float(val))
                                      for it in c['items'] for _, val in it['iso']) and
                        all(it['dens'] is None or (tok_class(it['dens']) in ('int', 'float'))
                            for it in c['items']),
                        'njunk': len(c['junk'])}
    else:
        out['compo'] = {'present': False, 'declared': 0, 'names': [], 'ncounts_ok': True,
                        'finite': True, 'njunk': 0}
    if t4['geomcomp'] is not None:
        rows = []
        for row in t4['geomcomp']:
            ok = len(row) >= 2 and tok_class(row[1]) == 'int' and \
                all(tok_class(t) == 'int' for t in row[2:])
            rows.append({'name': row[0], 'count': int(row[1]) if ok else -1,
                         'ids': [int(t) for t in row[2:]] if ok else []})
        out['geomcomp'] = {'present': True, 'rows': rows}
    else:
        out['geomcomp'] = {'present': False, 'rows': []}
    if t4['bc'] is not None:
        items = []
        for row in t4['bc']['items']:
            ok = len(row) == 3 and row[0] == 'ALL_COMPLETE' and tok_class(row[2]) == 'int'
            items.append({'kind': row[1] if len(row) > 1 else '', 'id': int(row[2]) if ok else -1,
                          'ok': bool(ok)})
        d = t4['bc']['declared']
        out['bc'] = {'present': True, 'declared': int(d) if tok_class(d) == 'int' else -1,
                     'items': items}
    else:
        out['bc'] = {'present': False, 'declared': 0, 'items': []}
    if pts2 is not None:
        out['rows'] = sense_rows(t4, pts2, real_points)
    if with_witness:
        out['wit'] = [witness(t4, s) for s in t4['surfs']]
    return out
