"""Per-pass trace validation: run decks with the hook sink installed and have
TLC check every recorded stage against the contracts of Pipeline.tla."""
import shutil

from . import adeck, conv, core, deckrun, project, t4file, tlc


def run_traced(job):
    """Worker: like deckrun.run_deck, plus the projected per-pass states."""
    deck = job['deck']
    text = job.get('text') or adeck.concretise(deck)
    rec_sink = project.Recorder(deck['pts'])
    res = conv.convert(text, job.get('opts', ()), sink=rec_sink)
    rec = {'tid': job['tid'], 'result': res['result'], 'err': res['error'], 'text': text, 'opts': list(job.get('opts', ())),
           'names': rec_sink.names, 'stages': rec_sink.stages, 'too_big': rec_sink.too_big, 'file': None,
           'note': conv.note_cells(res['stdout'])}
    if res['result'] == 'ok':
        t4 = t4file.parse(res['out'])
        rec['file'] = t4file.project(t4, deck['pts'], with_witness=False)
    return rec


def validate(chk, records, decks, timeout=3000):
    """Returns {tid: {'bad': [[stage, clause], ...], 'nstages': n}}."""
    traces = []
    for rec in records:
        if rec['too_big']:
            continue
        traces.append({'tid': rec['tid'], 'deck': deckrun.tlc_deck(decks[rec['tid']]), 'result': rec['result'],
                       'names': rec['names'], 'stages': rec['stages'], 'file': rec['file'] or deckrun.EMPTY_FILE})
    sd = tlc.scratch_dir('pipe')
    core.write_blocks(sd, traces)
    try:
        val = tlc.run('TracePipeline', 'INIT Init\nNEXT Next\nCHECK_DEADLOCK FALSE\n', env={'TRACE_DIR': sd},
                      workers=16, timeout=timeout)
    finally:
        shutil.rmtree(sd, ignore_errors=True)
    chk.cov['states'] += val['distinct']
    chk.cov['transitions'] += val['generated']
    out = {}
    for b in core.collect_blocks(val):
        for v in b['v']:
            out[v['tid']] = v
    if len(out) != len(traces):
        chk.machinery('TracePipeline validated %d of %d traces' % (len(out), len(traces)))
    return out


def check_decks(chk, decks, optsets, seed, prop_kinds=None, npts=60, label='pipeline'):
    """Convert `decks` (normalised, with pts) under optsets with hooks on; report per-pass violations.
    Returns the number of stage states validated."""
    import random
    rng = random.Random(seed)
    jobs, nd, meta = [], {}, {}
    tid = 0
    for d in decks:
        for opts in optsets(d, rng):
            tid += 1
            nd[tid] = d
            meta[tid] = opts
            jobs.append({'tid': tid, 'deck': d, 'opts': opts})
    records = [r for r in conv.run_batch(run_traced, jobs, chunksize=8)]
    good = []
    for r in records:
        if 'machinery_error' in r:
            chk.machinery(r['machinery_error'])
        else:
            good.append(r)
    if good and not any(r['names'] for r in good):
        chk.machinery('no hook event was recorded: are the hooks present and T4_GEOM_CONVERT_VERIF=1?')
        return 0
    try:
        verdicts = validate(chk, good, nd)
    except tlc.TLCFailure as exc:
        chk.machinery(str(exc))
        return 0
    byid = {r['tid']: r for r in good}
    nstates = 0
    for tid, v in sorted(verdicts.items()):
        nstates += v['nstages']
        rec = byid[tid]
        for stage, clause in v['bad']:
            if clause == 'projection_error':
                errs = [s.get('error') for s in rec['stages'] if s.get('kind') == 'error']
                chk.machinery('projection error at stage %s: %s' % (stage, errs[:1]))
                continue
            sig = {'clause': 'pass:%s:%s' % (stage, clause), 'opts': ' '.join(sorted(o.replace('--', '') for o in meta[tid]))}
            chk.violation(sig, {'text': rec['text'], 'opts': meta[tid], 'stage': stage, 'clause': clause,
                                'stage_names': rec['names']})
    chk.extra[label + '_stage_states_validated'] = chk.extra.get(label + '_stage_states_validated', 0) + nstates
    chk.extra[label + '_traces'] = chk.extra.get(label + '_traces', 0) + len(verdicts)
    return nstates
