"""Abstract decks (the JSON exchanged with TLC) and the concretiser that spells
them as MCNP input text."""
import random

IDM = [1, 0, 0, 0, 1, 0, 0, 0, 1]
CELL_DEFAULTS = {'mat': 0, 'rho': 0, 'rhotxt': '', 'imp': 1, 'u': 0, 'lat': 0, 'fill': 0,
                 'hasftr': False, 'ftr': {'o': [0, 0, 0], 'm': IDM}, 'ftrspell': 'num',
                 'hastrcl': False, 'trcl': {'o': [0, 0, 0], 'm': IDM}, 'trclspell': 'num',
                 'lranges': [], 'lunivs': [], 'lsurfs': [], 'lvecs': [], 'like': 0, 'but': [],
                 'impsrc': 'cell'}
SURF_DEFAULTS = {'d': 1, 'tr': 0, 'bc': '', 'hlen': 0, 'flen': 0}


def normalise(deck):
    """Fill in the fields a generator left out, so that TLC can read any deck."""
    deck = dict(deck)
    deck['cells'] = [dict(CELL_DEFAULTS, **c) for c in deck.get('cells', [])]
    deck['surfs'] = [dict(SURF_DEFAULTS, **s) for s in deck.get('surfs', [])]
    deck.setdefault('trs', [])
    deck.setdefault('mats', [])
    deck.setdefault('impcards', [])
    deck.setdefault('opts', [])
    deck.setdefault('pts', [])
    return deck


def grid_points(rng, n, lo=-7, hi=7):
    """n distinct half-integer probe points in doubled coordinates (all odd)."""
    odd = [v for v in range(lo, hi + 1) if v % 2]
    allpts = [(x, y, z) for x in odd for y in odd for z in odd]
    if n >= len(allpts):
        return [list(p) for p in allpts]
    return [list(p) for p in rng.sample(allpts, n)]


# ---------------------------------------------------------------------------
# text

def leaf_text(t):
    s = str(t[1])
    if t[2]:
        s += '.%d' % t[2]
    return s


def render_geom(t, parent=None):
    k = t[0]
    if k == 'S':
        return leaf_text(t)
    if k == 'C':
        return '#%d' % t[1]
    if k == 'N':
        return '#(' + render_geom(t[1]) + ')'
    parts = []
    for kid in t[1:]:
        s = render_geom(kid, k)
        if kid[0] in ('*', ':') and k == '*' and kid[0] == ':':
            s = '(' + s + ')'
        parts.append(s)
    return (' ' if k == '*' else ':').join(parts)


def num(x):
    return str(x)


def tr_params(tr, spell='12'):
    """Entries of a TR card / inline transformation for an integer motion."""
    o, m = tr['o'], tr['m']
    if spell == '3' and list(m) == IDM:
        return [num(v) for v in o]
    return [num(v) for v in o] + [num(v) for v in m]


def tr_params_star(tr):
    """Starred form: angles in degrees (signed-permutation matrices: 0, 90, 180)."""
    ang = {1: '0', 0: '90', -1: '180'}
    return [num(v) for v in tr['o']] + [ang[v] for v in tr['m']]


def surf_param_text(s):
    d = s.get('d', 1)
    out = []
    p = list(s['p'])
    raw_last = (s['k'] in ('kx', 'ky', 'kz') and len(p) == 3) or (s['k'] in ('k/x', 'k/y', 'k/z') and len(p) == 5)
    for i, v in enumerate(p):
        if raw_last and i == len(p) - 1:
            out.append(str(v))      # the sheet selector is not a length
        elif d == 1:
            out.append(str(v))
        else:
            out.append(repr(v / d))
    return ' '.join(out)


def wrap_card(text, width=72):
    """Continuation lines (5 leading blanks) for long cards."""
    words = text.split(' ')
    lines, cur = [], ''
    for w in words:
        if cur and len(cur) + 1 + len(w) > width:
            lines.append(cur)
            cur = '     ' + w
        else:
            cur = (cur + ' ' + w) if cur else w
    lines.append(cur)
    return '\n'.join(lines)


def cell_card(c, deck):
    parts = [str(c['n'])]
    if c.get('like'):
        parts.append('like %d but' % c['like'])
        parts += list(c.get('but', []))
        return wrap_card(' '.join(parts))
    if c['mat'] == 0:
        parts.append('0')
    else:
        parts.append('%d %s' % (c['mat'], c['rhotxt'] or '-1.0'))
    parts.append(render_geom(c['geom']))
    if c['u']:
        parts.append('u=%d' % c['u'])
    if c['lat']:
        parts.append('lat=%d' % c['lat'])
    if c['lat'] and c['lranges'] and not c.get('latopt'):
        rng = ' '.join('%d:%d' % (a, b) for a, b in c['lranges'])
        fill = 'fill=%s %s' % (rng, ' '.join(str(u) for u in c['lunivs']))
        if c['hasftr']:
            fill += ' ' + _tr_inline(c['ftr'], c['ftrspell'], deck)
            if c['ftrspell'] == 'star':
                fill = '*' + fill
        parts.append(fill)
    elif c['fill']:
        fill = 'fill=%d' % c['fill']
        if c['hasftr']:
            fill += ' ' + _tr_inline(c['ftr'], c['ftrspell'], deck)
            if c['ftrspell'] == 'star':
                fill = '*' + fill
        parts.append(fill)
    if c['hastrcl'] and c.get('trclnum'):
        parts.append('trcl=%d' % c['trclnum'])
    elif c['hastrcl']:
        kw = 'trcl=' + _tr_inline(c['trcl'], c['trclspell'], deck)
        if c['trclspell'] == 'star':
            kw = '*' + kw
        parts.append(kw)
    if c.get('impsrc', 'cell') == 'cell':
        parts.append('imp:n=%d' % c['imp'])
    elif c.get('impsrc') == 'cellmulti':
        parts.append(c['imptxt'])
    return wrap_card(' '.join(parts))


def _tr_inline(tr, spell, deck):
    if spell == 'num':
        return '(%d)' % tr_number(deck, tr)
    if spell == 'star':
        return '(' + ' '.join(tr_params_star(tr)) + ')'
    if spell == '3':
        return '(' + ' '.join(tr_params(tr, '3')) + ')'
    return '(' + ' '.join(tr_params(tr)) + ')'


def tr_number(deck, tr):
    """Number of the TR card carrying this motion (allocated on demand)."""
    table = deck.setdefault('_trtable', [])
    key = (tuple(tr['o']), tuple(tr['m']))
    for n, k in table:
        if k == key:
            return n
    used = {t['n'] for t in deck.get('trs', [])} | {n for n, _ in table}
    n = 1
    while n in used:
        n += 1
    table.append((n, key))
    return n


def concretise(deck, title='generated by vt4'):
    """MCNP input text of an abstract deck."""
    deck = dict(deck)
    deck['_trtable'] = []
    lines = [title]
    for c in deck['cells']:
        lines.append(cell_card(c, deck))
    lines.append('')
    for s in deck['surfs']:
        card = '%s%d' % (s.get('bc', ''), s['n'])
        if s.get('tr'):
            card += ' %d' % s['tr']
        card += ' %s %s' % (s['k'], surf_param_text(s))
        lines.append(wrap_card(card))
    lines.append('')
    for t in deck.get('trs', []):
        sp = t.get('spell', '12')
        if sp == 'star':
            lines.append(wrap_card('*tr%d %s' % (t['n'], ' '.join(tr_params_star(t)))))
        elif sp == '13':
            lines.append(wrap_card('tr%d %s 1' % (t['n'], ' '.join(tr_params(t)))))
        elif sp.startswith('rows') or sp.startswith('cols'):
            keep = {int(ch) - 1 for ch in sp[4:]}
            ent = []
            for r in range(3):
                for c in range(3):
                    given = (r in keep) if sp.startswith('rows') else (c in keep)
                    ent.append(num(t['m'][3 * r + c]) if given else 'j')
            lines.append(wrap_card('tr%d %s %s' % (t['n'], ' '.join(num(v) for v in t['o']), ' '.join(ent))))
        else:
            lines.append(wrap_card('tr%d %s' % (t['n'], ' '.join(tr_params(t, t.get('spell', '12'))))))
    for n, (o, m) in deck['_trtable']:
        lines.append(wrap_card('tr%d %s' % (n, ' '.join(tr_params({'o': o, 'm': m})))))
    mats = {c['mat'] for c in deck['cells'] if c['mat']}
    given = {m['n'] for m in deck.get('mats', [])}
    for m in deck.get('mats', []):
        lines.append(wrap_card('m%d %s' % (m['n'], ' '.join(m['tokens']))))
    for mnum in sorted(mats - given):
        lines.append('m%d 13027 1.0' % mnum)
    for card in deck.get('impcards', []):
        lines.append(wrap_card('imp:%s %s' % (card['par'], ' '.join(card['tokens']))))
    for extra in deck.get('extra_data', []):
        lines.append(extra)
    return '\n'.join(lines) + '\n'
