"""Abstract decks (the JSON exchanged with TLC) and the concretiser that spells
them as MCNP input text."""
import random

IDM = [1, 0, 0, 0, 1, 0, 0, 0, 1]
CELL_DEFAULTS = {'mat': 0, 'rho': 0, 'rhotxt': '', 'imp': 1, 'u': 0, 'lat': 0, 'fill': 0,
                 'hasftr': False, 'ftr': {'o': [0, 0, 0], 'm': IDM}, 'ftrspell': 'num',
                 'hastrcl': False, 'trcl': {'o': [0, 0, 0], 'm': IDM}, 'trclspell': 'num',
                 'lranges': [], 'lunivs': [], 'lsurfs': [], 'lvecs': [], 'latopt': False, 'like': 0, 'but': [],
                 'impsrc': 'cell'}
SURF_DEFAULTS = {'d': 1, 'tr': 0, 'bc': '', 'hlen': 0, 'flen': 0}


def normalise(deck):
    """Fill in the fields a generator left out, so that TLC can read any deck."""
    deck = dict(deck)
    deck['cells'] = [dict(CELL_DEFAULTS, **c) for c in deck.get('cells', [])]
    deck['surfs'] = [dict(SURF_DEFAULTS, **s) for s in deck.get('surfs', [])]
    deck.setdefault('trs', [])
    deck.setdefault('mats', [])
    deck.setdefault('impcards', [])
    deck.setdefault('opts', [])
    deck.setdefault('pts', [])
    return deck


def grid_points(rng, n, lo=-7, hi=7):
    """n distinct half-integer probe points in doubled coordinates (all odd)."""
    odd = [v for v in range(lo, hi + 1) if v % 2]
    allpts = [(x, y, z) for x in odd for y in odd for z in odd]
    if n >= len(allpts):
        return [list(p) for p in allpts]
    return [list(p) for p in rng.sample(allpts, n)]


# ---------------------------------------------------------------------------
# text

def leaf_text(t):
    s = str(t[1])
    if PLUS_SPELLING[0] and t[1] > 0:
        s = '+' + s          # '+3' in a cell expression is the positive sense of surface 3, the same as '3'
    if t[2]:
        s += '.%d' % t[2]
    return s


def render_geom(t, parent=None, rng=None):
    """MCNP text of a geometry tree.  With rng (a random.Random or the style names 'pairs1', 'pairs2', 'pairs3')
    redundant parentheses are written around runs of operands of one operator: `-1 2 (-3 4)` means `-1 2 -3 4`."""
    k = t[0]
    if k == 'S':
        return leaf_text(t)
    if k == 'C':
        return '#%d' % t[1]
    if k == 'N':
        return '#(' + render_geom(t[1], None, rng) + ')'
    parts = []
    for kid in t[1:]:
        s = render_geom(kid, k, rng)
        if kid[0] in ('*', ':') and k == '*' and kid[0] == ':':
            s = '(' + s + ')'
        parts.append(s)
    sep = ' ' if k == '*' else ':'
    if isinstance(rng, str) and k == '*' and len(parts) >= 4:
        # lattice cells: the bounding surfaces grouped in pairs
        first = {'pairs1': 2, 'pairs2': 0, 'pairs3': len(parts) - 2 - len(parts) % 2}[rng]
        head, rest = parts[:first], parts[first:]
        groups = ['(' + sep.join(rest[i:i + 2]) + ')' if len(rest[i:i + 2]) == 2 else rest[i] for i in range(0, len(rest), 2)]
        parts = head + groups
    elif rng is not None and not isinstance(rng, str) and len(parts) >= 3 and rng.random() < 0.8:
        i = rng.randrange(0, len(parts) - 1)
        j = rng.randrange(i + 2, len(parts) + 1)
        if j - i < len(parts):
            parts = parts[:i] + ['(' + sep.join(parts[i:j]) + ')'] + parts[j:]
    return sep.join(parts)


STAR_WIDE = [False]          # when set, starred transformations are written with angles outside [0, 180]
PLUS_SPELLING = [False]      # when set, positive transformation entries are written with an explicit '+'


def num(x):
    text = repr(x) if isinstance(x, float) else str(x)
    if PLUS_SPELLING[0] and x > 0:
        text = '+' + text
    return text


def tr_params(tr, spell='12'):
    """Entries of a TR card / inline transformation for an integer motion."""
    o, m = tr['o'], tr['m']
    if spell in ('3', 'star3') and list(m) == IDM:
        return [num(v) for v in o]
    return [num(v) for v in o] + [num(v) for v in m]


def tr_params_star(tr):
    """Starred form: angles in degrees (signed-permutation matrices: 0, 90, 180)."""
    import math
    ang = {1: '0', 0: '90', -1: '180'}
    out = [num(v) for v in tr['o']]
    for j, v in enumerate(tr['m']):
        a = float(ang[v]) if isinstance(v, int) else math.degrees(math.acos(max(-1.0, min(1.0, v))))
        if STAR_WIDE[0] and j % 3:
            # the cosine is even and periodic: 360 - a and -a are the same entry (angles beyond 180 degrees)
            a = 360.0 - a if j % 3 == 1 else -a
            out.append(repr(a) if a != int(a) else str(int(a)))
        else:
            out.append(ang[v] if isinstance(v, int) else repr(a))
    return out


def surf_param_text(s):
    d = s.get('d', 1)
    out = []
    p = list(s['p'])
    if s.get('coefscale'):      # a GQ equation multiplied by a positive constant: the same surface, the same sense
        return ' '.join(repr(v / d * s['coefscale']) for v in p)
    raw_last = (s['k'] in ('kx', 'ky', 'kz') and len(p) == 3) or (s['k'] in ('k/x', 'k/y', 'k/z') and len(p) == 5)
    for i, v in enumerate(p):
        if raw_last and i == len(p) - 1:
            out.append(str(v))      # the sheet selector is not a length
        elif d == 1:
            out.append(str(v))
        else:
            out.append(repr(v / d))
    return ' '.join(out)


def wrap_card(text, width=72):
    """Continuation lines (5 leading blanks) for long cards."""
    words = text.split(' ')
    lines, cur = [], ''
    for w in words:
        if cur and len(cur) + 1 + len(w) > width:
            lines.append(cur)
            cur = '     ' + w
        else:
            cur = (cur + ' ' + w) if cur else w
    lines.append(cur)
    return '\n'.join(lines)


def cell_card(c, deck):
    parts = [str(c['n'])]
    if c.get('like'):
        parts.append('like %d but' % c['like'])
        parts += [_eq(w, c.get('eqstyle')) for w in c.get('but', [])]
        return wrap_card(' '.join(parts))
    if c['mat'] == 0:
        parts.append('0')
    else:
        parts.append(('0%d %s' if c.get('matlead') else '%d %s') % (c['mat'], c['rhotxt'] or '-1.0'))     # '01' is material 1
    par = c.get('parens')
    parts.append(render_geom(c['geom'], None, random.Random(par) if isinstance(par, int) else par))
    nfixed = len(parts)
    parts += list(c.get('kw_front', []))       # cell parameters the conversion has no use for (VOL, NONU, TMP, ...)
    paramcards = bool(deck.get('paramcards'))     # U and FILL given on data cards (one entry per cell) instead
    if c['u'] and not paramcards:
        # U=-n: MCNP's "not truncated by the container" hint; the cell is in universe n all the same
        parts.append('u=%d' % (-c['u'] if c.get('negu') else c['u']))
    if c['lat']:
        parts.append('lat=%d' % c['lat'])
    if c['lat'] and c['lranges'] and not c.get('latopt'):
        rng = ' '.join('%d:%d' % (a, b) for a, b in c['lranges'])
        fill = 'fill=%s %s' % (rng, ' '.join(_array_tokens(c['lunivs'], c.get('arrayshort')) + list(c.get('array_extra', []))))
        if c['hasftr']:
            fill += ' ' + _tr_inline(c['ftr'], c['ftrspell'], deck)
            if c['ftrspell'].startswith('star'):
                fill = '*' + fill
        parts.append(fill)
    elif c['fill'] and not paramcards:
        fill = 'fill=%d' % c['fill']
        if c['hasftr']:
            fill += ' ' + _tr_inline(c['ftr'], c['ftrspell'], deck)
            if c['ftrspell'].startswith('star'):
                fill = '*' + fill
        parts.append(fill)
    if c['hastrcl'] and c.get('trclnum'):
        parts.append('trcl=%d' % c['trclnum'])
    elif c['hastrcl']:
        kw = 'trcl=' + _tr_inline(c['trcl'], c['trclspell'], deck)
        if c['trclspell'].startswith('star'):
            kw = '*' + kw
        parts.append(kw)
    if c.get('impsrc', 'cell') == 'cell':
        parts.append('imp:n=%d' % c['imp'])
    elif c.get('impsrc') == 'cellmulti':
        parts.append(c['imptxt'])
    parts += list(c.get('kw_back', []))
    if c.get('kwshuffle') is not None:
        # the keywords of a cell card may come in any order
        kws = parts[nfixed:]
        random.Random(c['kwshuffle']).shuffle(kws)
        parts = parts[:nfixed] + kws
    parts = parts[:nfixed] + [_eq(w, c.get('eqstyle')) for w in parts[nfixed:]]
    return wrap_card(' '.join(parts))


def _eq(word, style):
    """The equals sign of a cell keyword is optional: `u=3`, `u 3` and `u = 3` are one keyword."""
    if style == 'blank':
        return word.replace('=', ' ')
    if style == 'spaced':
        return word.replace('=', ' = ')
    return word


def _array_tokens(univs, short):
    """Entries of a FILL array, runs of equal universes optionally written with the nR shorthand ('2 3r')."""
    if not short:
        return [str(u) for u in univs]
    out, i = [], 0
    while i < len(univs):
        j = i
        while j + 1 < len(univs) and univs[j + 1] == univs[i]:
            j += 1
        out.append(str(univs[i]))
        if j > i:
            out.append('%dr' % (j - i) if j - i > 1 else 'r')
        i = j + 1
    return out


def _tr_inline(tr, spell, deck):
    if spell == 'num':
        return '(%d)' % tr_number(deck, tr)
    if spell == 'star':
        return '(' + ' '.join(tr_params_star(tr)) + ')'
    if spell == 'starm':      # fault injection (C17): m = -1
        return '(' + ' '.join(tr_params_star(tr)) + ' -1)'
    if spell == '13m':
        return '(' + ' '.join(tr_params(tr)) + ' -1)'
    if spell in ('6', 'star6'):     # two rows of the matrix, the third is their cross product (proper rotations only)
        m = tr['m']
        det = (m[0] * (m[4] * m[8] - m[5] * m[7]) - m[1] * (m[3] * m[8] - m[5] * m[6]) + m[2] * (m[3] * m[7] - m[4] * m[6]))
        full = tr_params_star(tr) if spell == 'star6' else tr_params(tr)
        return '(' + ' '.join(full[:9] if det > 0 else full) + ')'
    if spell in ('3', 'star3'):     # star3: *TRCL=(dx dy dz) / *FILL=n (dx dy dz): the star is a no-op without angles
        return '(' + ' '.join(tr_params(tr, '3')) + ')'
    if spell == '13':
        return '(' + ' '.join(tr_params(tr)) + ' 1)'
    return '(' + ' '.join(tr_params(tr)) + ')'


def tr_number(deck, tr):
    """Number of the TR card carrying this motion (allocated on demand)."""
    table = deck.setdefault('_trtable', [])
    key = (tuple(tr['o']), tuple(tr['m']))
    for n, k in table:
        if k == key:
            return n
    used = {t['n'] for t in deck.get('trs', [])} | {n for n, _ in table}
    n = 1
    while n in used:
        n += 1
    table.append((n, key))
    return n


def concretise(deck, title='generated by vt4'):
    """MCNP input text of an abstract deck."""
    PLUS_SPELLING[0] = bool(deck.get('plusspell'))
    STAR_WIDE[0] = bool(deck.get('starwide'))
    try:
        return _concretise(deck, title)
    finally:
        PLUS_SPELLING[0] = False
        STAR_WIDE[0] = False


def _concretise(deck, title):
    deck = dict(deck)
    deck['_trtable'] = []
    lines = [title]
    for c in deck['cells']:
        lines.append(cell_card(c, deck))
    lines.append('')
    for s in deck['surfs']:
        card = '%s%d' % (s.get('bc', ''), s['n'])
        if s.get('tr'):
            card += ' %d' % s['tr']
        card += ' %s %s' % (s['k'], surf_param_text(s))
        lines.append(wrap_card(card))
    lines.append('')
    for t in deck.get('trs', []):
        sp = t.get('spell', '12')
        if sp == 'star':
            lines.append(wrap_card('*tr%d %s' % (t['n'], ' '.join(tr_params_star(t)))))
        elif sp == 'star3':
            lines.append(wrap_card('*tr%d %s' % (t['n'], ' '.join(tr_params(t, '3')))))
        elif sp == '13':
            lines.append(wrap_card('tr%d %s 1' % (t['n'], ' '.join(tr_params(t)))))
        elif sp == '13m':
            lines.append(wrap_card('tr%d %s -1' % (t['n'], ' '.join(tr_params(t)))))
        elif sp == 'starm':
            lines.append(wrap_card('*tr%d %s -1' % (t['n'], ' '.join(tr_params_star(t)))))
        elif sp.startswith('rows') or sp.startswith('cols'):
            keep = {int(ch) - 1 for ch in sp[4:]}
            ent = []
            for r in range(3):
                for c in range(3):
                    given = (r in keep) if sp.startswith('rows') else (c in keep)
                    ent.append(num(t['m'][3 * r + c]) if given else 'j')
            lines.append(wrap_card('tr%d %s %s' % (t['n'], ' '.join(num(v) for v in t['o']), ' '.join(ent))))
        else:
            lines.append(wrap_card('tr%d %s' % (t['n'], ' '.join(tr_params(t, t.get('spell', '12'))))))
    for n, (o, m) in deck['_trtable']:
        lines.append(wrap_card('tr%d %s' % (n, _tr_inline({'o': o, 'm': m}, '6' if deck.get('tr6') else '12', deck)[1:-1])))
    mats = {c['mat'] for c in deck['cells'] if c['mat']}
    given = {m['n'] for m in deck.get('mats', [])}
    for m in deck.get('mats', []):
        lines.append(wrap_card('m%d %s' % (m['n'], ' '.join(m['tokens']))))
    for mnum in sorted(mats - given):
        lines.append('m%d 13027 1.0' % mnum)
    if deck.get('paramcards'):
        lines.append(wrap_card('u ' + ' '.join(str(c['u']) for c in deck['cells'])))
        lines.append(wrap_card('fill ' + ' '.join(str(c['fill']) for c in deck['cells'])))
    for card in deck.get('impcards', []):
        lines.append(wrap_card('imp:%s %s' % (card['par'], ' '.join(card['tokens']))))
    for extra in deck.get('extra_data', []):
        lines.append(extra)
    return '\n'.join(lines) + '\n'


# ---------------------------------------------------------------------------
# densities: numeric value of an MCNP number spelling, value classes

def mcnp_float(text):
    """Numeric value of an MCNP/Fortran number spelling ('5-2', '2.7d0', '-1.')."""
    import re
    t = text.strip().lower().replace('d', 'e')
    m = re.match(r'^([-+]?(?:\d+\.?\d*|\.\d+))([-+]\d+)$', t)
    if m:
        t = m.group(1) + 'e' + m.group(2)
    return float(t)


def rho_class(deck, text):
    """Class id (1-based) of a density spelling in the deck's table of values; -1 if unknown."""
    try:
        val = mcnp_float(text)
    except ValueError:
        return -1
    for i, v in enumerate(deck.get('rhovalues', [])):
        if v == val:
            return i + 1
    return -1


def composition_info(t4, deck):
    """For every composition name of the file: material number and density class read off the name."""
    names = []
    if t4['compo'] is not None:
        names += [(it['name'], True) for it in t4['compo']['items']]
    defined = {n for n, _ in names}
    if t4['geomcomp'] is not None:
        names += [(row[0], row[0] in defined) for row in t4['geomcomp'] if row and row[0] not in defined]
    out, seen = [], set()
    for name, isdef in names:
        if name in seen:
            continue
        seen.add(name)
        mat, rho = -1, -1
        if name == 'm0':
            mat, rho = 0, 0
        elif name.startswith('m') and '_' in name:
            head, _, dens = name[1:].partition('_')
            if head.isdigit():
                mat = int(head)
            rho = rho_class(deck, dens)
        out.append({'name': name, 'mat': mat, 'rho': rho, 'defined': bool(isdef)})
    return out


DENSITY_CLASSES = {
    # value class -> spellings that differ only in trailing zeros / exponent marker (DESIGN.md C09)
    'A': ['-2.7', '-2.70', '-2.700'],
    'A2': ['-2.7e0', '-2.7E0', '-2.7d0', '-2.7+0'],    # numerically = A: never both for one material in one deck
    'B': ['-1.0', '-1.00'],
    'C': ['5e-2', '5-2', '5E-2', '5d-2'],
    # a mantissa that ends in 0 in front of a Fortran exponent (the name is normalised in two passes)
    'L': ['6.40870-2', '6.4087-2', '6.4087e-2'],
    'E': ['-7.8', '-7.80'],
    'F': ['0.0602', '0.06020'],
    'G': ['-1.5', '-1.50'],
    # numerically different values that agree to six significant digits: never one composition
    'H': ['-0.9982071', '-0.99820710'], 'H2': ['-0.9982074'],
    'I': ['6.022141-2', '6.022141e-2'], 'I2': ['6.022142-2', '6.022142E-2'],
    # two digits before the decimal point
    'J': ['-11.34', '-11.340', '-11.3400'], 'K': ['-19.3', '-19.30', '-19.300'],
    # Fortran exponent forms with a positive exponent (the '+' is the exponent marker of the bare form)
    'M': ['-1.93+1', '-1.93e+1', '-1.93E+1', '-1.93d+1'],
    # many digits (composition names of 17 and more characters): values that differ in the twelfth digit only
    'N': ['-7.87400000125', '-7.874000001250'], 'N2': ['-7.87400000126'],
    'O': ['6.02214076199e-2', '6.02214076199-2', '6.022140761990e-2'], 'O2': ['6.02214076198e-2', '6.02214076198E-2'],
}


def decorate_materials(deck, rng, classes_for=None, spellings='all'):
    """Give every non-filled cell a material (0, 1, 2) and a density spelling."""
    # B: shared by both materials; K and M are one value in decimal and in exponent form: never for one material
    classes_for = classes_for or {1: [rng.choice(['A', 'A2']), 'B', 'G', 'H', 'H2', 'J', 'M', 'N', 'N2'],
                                  2: ['C', 'E', 'F', 'B', 'I', 'I2', 'K', 'L', 'O', 'O2']}
    values = []
    for c in deck['cells']:
        if c['fill'] or (c['lat'] and c['lunivs']):
            c['mat'], c['rho'], c['rhotxt'] = 0, 0, ''
            continue
        c['mat'] = rng.choice([0, 1, 1, 2, 2])
        if c['mat'] == 0:
            c['rho'], c['rhotxt'] = 0, ''
            continue
        cls = rng.choice(classes_for[c['mat']])
        sp = DENSITY_CLASSES[cls]
        c['rhotxt'] = sp[0] if spellings == 'canonical' else rng.choice(sp)
        val = mcnp_float(c['rhotxt'])
        if val not in values:
            values.append(val)
        c['rho'] = values.index(val) + 1
    deck['rhovalues'] = values
    return deck


IRRELEVANT_KW = ['vol=2.5', 'pwt=1', 'ext:n=0', 'fcl:n=0', 'nonu=1', 'nonu=0', 'tmp=2.53e-8', 'elpt:n=1', 'unc:n=1',
                 'dxc1:n=1', 'wwn1:n=0.5', 'cosy=1', 'bflcl=0', 'pd1=1']


def irrelevant_keywords(deck, rng):
    """Give every explicit cell card one or two MCNP cell parameters that have no bearing on the geometry or the
    materials, before and/or after the parameters the converter reads: the conversion must not change."""
    for c in deck['cells']:
        if c.get('like'):
            continue
        c['kw_front'] = [rng.choice(IRRELEVANT_KW)] if rng.random() < 0.6 else []
        c['kw_back'] = [rng.choice(IRRELEVANT_KW)] if rng.random() < 0.6 else []
    return deck


def imp_datacards(deck, style):
    """Move the importances of the cell cards to an IMP:N data card (one entry per cell card, in card order),
    written as reals: the same numbers.  Decks with LIKE cells or IMP cards of their own are left alone."""
    if deck.get('impcards') or any(c.get('like') or c.get('impsrc', 'cell') != 'cell' for c in deck['cells']):
        return False
    forms = (['%d.0', '%d', '%d.'], ['%d.', '%d.0', '%d.0'], ['%d.0', '%d.0', '%d'])[style % 3]
    toks = []
    for i, c in enumerate(deck['cells']):
        c['impsrc'] = 'data'
        toks.append(forms[i % 3] % c['imp'])
    deck['impcards'] = [{'par': 'n', 'tokens': toks}]
    return True


def simple_materials(deck, rhotxt='-1.0'):
    """Materials as chosen by the generator, one density for all of them."""
    for c in deck['cells']:
        if c.get('mat'):
            c['rhotxt'], c['rho'] = rhotxt, 1
        else:
            c['rhotxt'], c['rho'] = '', 0
    deck['rhovalues'] = [mcnp_float(rhotxt)]
    return deck


def lattice_opts(deck):
    """--lattice options for the lattice cells converted through FILL=n."""
    out = []
    for c in deck['cells']:
        if c['lat'] and c.get('latopt'):
            out += ['--lattice', '%d,%s' % (c['n'], ','.join('%d:%d' % (a, b) for a, b in c['lranges']))]
    return out


# ---------------------------------------------------------------------------
# covariance (DESIGN.md section 5): the whole deck is moved by one rigid motion phi in floating point;
# the expected owner of phi(p) is the exact owner of p, so TLC keeps working on the un-moved exact deck

def rotation(axis, degrees):
    import math
    x, y, z = axis
    n = math.sqrt(x * x + y * y + z * z)
    x, y, z = x / n, y / n, z / n
    c, s = math.cos(math.radians(degrees)), math.sin(math.radians(degrees))
    C = 1 - c
    return [[c + x * x * C, x * y * C - z * s, x * z * C + y * s],
            [y * x * C + z * s, c + y * y * C, y * z * C - x * s],
            [z * x * C - y * s, z * y * C + x * s, c + z * z * C]]


PHIS = [((0.3, -1.2, 0.7), rotation((0, 0, 1), 30.0)),
        ((-0.4, 0.9, 1.1), rotation((1, 1, 1), 40.0)),
        ((1.25, 0.0, -0.6), rotation((1, 2, 2), 75.0)),
        ((0.0, 0.0, 0.0), rotation((-2, 1, 3), 123.0)),
        # far from the origin (absolute tolerances, comparisons "up to round-off" that scale with the coordinates)
        ((300000.0, -200000.0, 100000.0), rotation((0, 0, 1), 0.0)),
        ((-250000.0, 150000.0, 350000.0), rotation((1, 2, 2), 75.0))]


def moved_deck(deck, phi, trnum=98):
    """Copy of `deck` in which every surface card carries TR `trnum` = phi (None if a card already has a TR
    or a cell uses TRCL / FILL transformations / lattices: those decks are not moved)."""
    if any(s.get('tr') for s in deck['surfs']):
        return None
    if any(c['hastrcl'] or c['hasftr'] or c['lat'] for c in deck['cells']):
        return None
    o, R = phi
    m = [R[r][c] for c in range(3) for r in range(3)]       # rows of the TR matrix = images of the auxiliary axes
    d = dict(deck)
    d['surfs'] = [dict(s, tr=trnum) for s in deck['surfs']]
    d['trs'] = list(deck.get('trs', [])) + [{'n': trnum, 'o': list(o), 'm': m, 'spell': '12'}]
    return d


def moved_points(pts2, phi):
    """Main-frame (float, NOT doubled) images of the doubled auxiliary probe points."""
    o, R = phi
    out = []
    for P in pts2:
        u = [P[0] / 2.0, P[1] / 2.0, P[2] / 2.0]
        out.append(tuple(o[r] + sum(R[r][c] * u[c] for c in range(3)) for r in range(3)))
    return out


def _tr_to_affine(tr):
    """(o, L): x_main = o + L . x_aux, L[r][c] = image of auxiliary axis c, component r."""
    m = tr['m']
    return list(tr['o']), [[m[3 * c + r] for c in range(3)] for r in range(3)]


def _affine_to_tr(o, L):
    return {'o': list(o), 'm': [L[r][c] for c in range(3) for r in range(3)]}


def _aff_compose(b, a):
    """first a, then b"""
    ob, Lb = b
    oa, La = a
    L = [[sum(Lb[r][k] * La[k][c] for k in range(3)) for c in range(3)] for r in range(3)]
    o = [ob[r] + sum(Lb[r][k] * oa[k] for k in range(3)) for r in range(3)]
    return o, L


def _aff_inverse(a):
    """inverse of a rigid motion"""
    o, L = a
    Lt = [[L[c][r] for c in range(3)] for r in range(3)]
    return [-sum(Lt[r][k] * o[k] for k in range(3)) for r in range(3)], Lt


def moved_world(deck, phi):
    """The whole world moved by the rigid motion phi = (o, R): every frame (real world and every universe) is
    mapped by phi, so every surface card carries phi (composed with its own TR) and every transformation T
    between frames (TRCL, FILL) becomes phi T phi^-1.  The meaning is covariant: the owner of phi(p) in the moved
    deck is the owner of p in the exact deck.  Returns an abstract deck with float transformations, or None
    (LIKE cells and boundary-condition flags are not moved)."""
    import copy
    if any(c.get('like') for c in deck['cells']) or any(s.get('bc') for s in deck['surfs']):
        return None
    G = (list(phi[0]), [list(row) for row in phi[1]])
    Ginv = _aff_inverse(G)
    d = copy.deepcopy(deck)
    old = {t['n']: t for t in deck.get('trs', [])}
    cards, cache = [], {}
    used = set(old)

    def card_for(key, aff):
        if key in cache:
            return cache[key]
        n = 30
        while n in used:
            n += 1
        used.add(n)
        cache[key] = n
        cards.append(dict(_affine_to_tr(*aff), n=n, spell='star' if len(cards) % 2 else '12'))
        return n

    def conj(tr):
        return _affine_to_tr(*_aff_compose(_aff_compose(G, _tr_to_affine(tr)), Ginv))

    for s in d['surfs']:
        if s.get('tr'):
            s['tr'] = card_for(('s', s['tr']), _aff_compose(G, _tr_to_affine(old[s['tr']])))
        else:
            s['tr'] = card_for(('s', 0), G)
    for c in d['cells']:
        if c['hastrcl']:
            ident = list(c['trcl']['m']) == IDM
            c['trcl'] = conj(c['trcl'])
            if c.get('trclnum'):
                c['trclnum'] = card_for(('c', c['n']), _tr_to_affine(c['trcl']))
            elif c['trclspell'] != 'num':
                c['trclspell'] = c['trclspell'] if (c['trclspell'] == 'star' or (ident and c['trclspell'] in ('3', 'star3'))) else '12'
            if ident:
                c['trcl']['m'] = list(IDM)
        if c['hasftr']:
            ident = list(c['ftr']['m']) == IDM
            c['ftr'] = conj(c['ftr'])
            if c['ftrspell'] != 'num':
                c['ftrspell'] = c['ftrspell'] if (c['ftrspell'] == 'star' or (ident and c['ftrspell'] in ('3', 'star3'))) else '12'
            if ident:
                c['ftr']['m'] = list(IDM)
    d['trs'] = cards
    d.pop('plusspell', None)
    return d


# ---------------------------------------------------------------------------
# affine covariance (C07, regular hexagons): a deck whose surfaces are planes and origin-centred spheres and
# whose transformations are translations is covariant under ANY affine map x' = A x + b applied to every frame:
# planes n.x = d -> (A^-T n).x' = d + (A^-T n).b, spheres -> general quadrics, translations o -> A o.

def _plane_of(s):
    """(normal, d) of a plane card (entries divided by the card's denominator), or None."""
    k, p, den = s['k'], s['p'], float(s.get('d', 1))
    if k == 'p' and len(p) == 4:
        return [p[0] / den, p[1] / den, p[2] / den], p[3] / den
    if k in ('px', 'py', 'pz'):
        n = [0.0, 0.0, 0.0]
        n['xyz'.index(k[1])] = 1.0
        return n, p[0] / den
    return None


def translations_only(deck):
    """Copy of the deck in which every rotation is replaced by the identity (an exact deck of its own)."""
    import copy
    d = copy.deepcopy(deck)
    for t in d.get('trs', []):
        t['m'] = list(IDM)
        t['spell'] = '12'
    for c in d['cells']:
        if c['lat'] and c['hastrcl'] and c.get('lvecs'):
            # the base vectors recorded for TLC were turned with the cell's TRCL: turn them back
            m = c['trcl']['m']
            c['lvecs'] = [[sum(m[3 * i + k] * v[k] for k in range(3)) for i in range(3)] for v in c['lvecs']]
        for key in ('trcl', 'ftr'):
            c[key] = {'o': list(c[key]['o']), 'm': list(IDM)}
        if c['trclspell'] not in ('num', '3', 'star3'):
            c['trclspell'] = '12'
        if c['ftrspell'] not in ('num', '3', 'star3'):
            c['ftrspell'] = '12'
    return d


def affine_world(deck, A, b):
    """Abstract deck moved by x' = A x + b in every frame (None when the deck is outside the covariant class)."""
    import copy
    import numpy as np
    if any(c.get('like') for c in deck['cells']) or any(s.get('bc') or s.get('tr') for s in deck['surfs']):
        return None
    if any(list(t['m']) != IDM for t in deck.get('trs', [])):
        return None
    for c in deck['cells']:
        if (c['hastrcl'] and list(c['trcl']['m']) != IDM) or (c['hasftr'] and list(c['ftr']['m']) != IDM):
            return None
    A = np.array(A, dtype=float)
    b = np.array(b, dtype=float)
    AinvT = np.linalg.inv(A).T
    d = copy.deepcopy(deck)
    for s in d['surfs']:
        pl = _plane_of(s)
        if pl is not None:
            n2 = AinvT @ np.array(pl[0])
            s['k'], s['p'], s['d'] = 'p', [float(v) for v in n2] + [float(pl[1] + n2 @ b)], 1
        elif s['k'] == 'so':
            r = s['p'][0] / float(s.get('d', 1))
            M = AinvT @ AinvT.T          # A^-T A^-1
            Mb = M @ b
            s['k'], s['d'] = 'gq', 1
            s['p'] = [float(v) for v in (M[0, 0], M[1, 1], M[2, 2], 2 * M[0, 1], 2 * M[1, 2], 2 * M[0, 2],
                                         -2 * Mb[0], -2 * Mb[1], -2 * Mb[2], b @ Mb - r * r)]
        elif s['k'] == 'arb' or (s['k'] in ('rpp', 'box', 'wed') and np.count_nonzero(A - np.diag(np.diagonal(A))) == 0
                                 and all(v > 0 for v in np.diagonal(A))
                                 and (s['k'] == 'rpp' or all(sum(1 for v in s['p'][3 * j:3 * j + 3] if v) == 1
                                                             for j in range(1, len(s['p']) // 3)))):
            # (BOX and WED have orthogonal edges: only those along the axes stay so under a diagonal map)
            # bodies given by vertices and edge vectors are mapped vertex by vertex (facet numbers follow the vertices)
            den = float(s.get('d', 1))
            p = [v / den for v in s['p']]
            if s['k'] == 'arb':
                q = []
                for j in range(8):
                    q += [float(v) for v in A @ np.array(p[3 * j:3 * j + 3]) + b]
                s['p'] = q + [int(v) for v in s['p'][24:]]
            elif s['k'] == 'rpp':
                lo = A @ np.array([p[0], p[2], p[4]]) + b
                hi = A @ np.array([p[1], p[3], p[5]]) + b
                s['p'] = [float(lo[0]), float(hi[0]), float(lo[1]), float(hi[1]), float(lo[2]), float(hi[2])]
            else:
                q = [float(v) for v in A @ np.array(p[0:3]) + b]
                for j in range(1, len(p) // 3):
                    q += [float(v) for v in A @ np.array(p[3 * j:3 * j + 3])]
                s['p'] = q
            s['d'] = 1
        else:
            return None
    for t in d.get('trs', []):
        t['o'] = [float(v) for v in A @ np.array(t['o'], dtype=float)]
    for c in d['cells']:
        for key in ('trcl', 'ftr'):
            c[key] = {'o': [float(v) for v in A @ np.array(c[key]['o'], dtype=float)], 'm': list(IDM)}
    d.pop('plusspell', None)
    return d


def affine_points(pts2, A, b):
    import numpy as np
    A = np.array(A, dtype=float)
    b = np.array(b, dtype=float)
    return [tuple(float(v) for v in A @ (np.array(P, dtype=float) / 2.0) + b) for P in pts2]


def hex_regular_map(deck):
    """Linear map A that takes the hexagonal prism of the deck's LAT=2 cell to a REGULAR hexagonal prism (same
    axis), or None when the hexagon is not an affine image of a regular one (its three scaled side normals
    w_i = n_i / halfwidth_i must satisfy w1 +- w2 +- w3 = 0)."""
    from fractions import Fraction
    import numpy as np
    cells = [c for c in deck['cells'] if c['lat'] == 2]
    if len(cells) != 1:
        return None
    surfs = {s['n']: s for s in deck['surfs']}

    def lv(t):
        if t[0] == 'S':
            return [t]
        if t[0] in ('*', ':'):
            return [x for k in t[1:] for x in lv(k)]
        return []
    leaves_ = lv(cells[0]['geom'])
    if len(leaves_) not in (6, 8):
        return None
    halfspaces = []
    for lf in leaves_:
        s = surfs.get(abs(lf[1]))
        if s is None or s.get('tr') or lf[2]:
            return None
        k, p, den = s['k'], s['p'], s.get('d', 1)
        if k == 'p' and len(p) == 4:
            n, dd = [Fraction(v, den) for v in p[:3]], Fraction(p[3], den)
        elif k in ('px', 'py', 'pz'):
            n = [Fraction(0)] * 3
            n['xyz'.index(k[1])] = Fraction(1)
            dd = Fraction(p[0], den)
        else:
            return None
        if lf[1] > 0:        # n.x > d  ==  (-n).x < -d
            n, dd = [-v for v in n], -dd
        halfspaces.append((n, dd))
    ws = []
    for i in range(3):
        (na, da), (nb, db) = halfspaces[2 * i], halfspaces[2 * i + 1]
        j = next(k for k in range(3) if na[k] != 0)
        mu = -nb[j] / na[j]
        if mu <= 0 or any(nb[k] != -mu * na[k] for k in range(3)):
            return None
        h = (da + db / mu) / 2
        if h <= 0:
            return None
        ws.append([v / h for v in na])
    rel = None
    for s2 in (1, -1):
        for s3 in (1, -1):
            if all(ws[0][k] + s2 * ws[1][k] + s3 * ws[2][k] == 0 for k in range(3)):
                rel = (s2, s3)
    if rel is None:
        return None
    w1 = np.array([float(v) for v in ws[0]])
    w2 = np.array([float(v) for v in ws[1]])
    axis = np.cross(w1, w2)
    axis /= np.linalg.norm(axis)
    c = np.linalg.norm(w1)
    e1 = w1 / c
    cos_t = -rel[0] / 2.0
    sin_t = (1 - cos_t * cos_t) ** 0.5
    e2 = cos_t * e1 + sin_t * np.cross(axis, e1)
    target = np.column_stack([c * e1, c * e2, axis])
    source = np.column_stack([w1, w2, axis])
    AinvT = target @ np.linalg.inv(source)
    A = np.linalg.inv(AinvT.T)
    return [[float(v) for v in row] for row in A]


def scaled(deck, k):
    """The deck with every length multiplied by the integer k (plane normals unchanged, only the D terms, radii,
    positions, displacements and lattice base vectors grow): an exact deck of its own, the twin of `deck` with the
    same orientation of every plane and another pitch.  None for surface kinds it does not know."""
    import copy
    d = copy.deepcopy(deck)
    for s in d['surfs']:
        if s['k'] in ('so', 'px', 'py', 'pz', 'cx', 'cy', 'cz'):
            s['p'] = [v * k for v in s['p']]
        elif s['k'] == 'p' and len(s['p']) == 4:
            s['p'] = list(s['p'][:3]) + [s['p'][3] * k]
        elif s['k'] in ('s', 'c/x', 'c/y', 'c/z', 'sx', 'sy', 'sz'):
            s['p'] = [v * k for v in s['p']]
        else:
            return None
    for t in d.get('trs', []):
        t['o'] = [v * k for v in t['o']]
    for c in d['cells']:
        c['trcl'] = {'o': [v * k for v in c['trcl']['o']], 'm': list(c['trcl']['m'])}
        c['ftr'] = {'o': [v * k for v in c['ftr']['o']], 'm': list(c['ftr']['m'])}
        if c.get('lvecs'):
            c['lvecs'] = [[v * k for v in vec] for vec in c['lvecs']]
    d['scaled'] = k
    return d


# ---------------------------------------------------------------------------
# renumbering: the meaning of a deck does not depend on the numbers chosen for cells, surfaces, universes

def renumber(deck, smap=None, cmap=None, umap=None):
    """Consistently renumbered copy of a normalised deck (maps are functions int -> int, injective)."""
    smap = smap or (lambda n: n)
    cmap = cmap or (lambda n: n)
    umap = umap or (lambda n: n)

    def tree(t):
        k = t[0]
        if k == 'S':
            return ['S', (1 if t[1] > 0 else -1) * smap(abs(t[1])), t[2]]
        if k in ('C', 'R'):
            return [k, cmap(t[1])]
        if k == 'N':
            return ['N', tree(t[1])]
        return [k] + [tree(x) for x in t[1:]]
    d = dict(deck)
    d['surfs'] = [dict(s, n=smap(s['n'])) for s in deck['surfs']]
    cells = []
    for c in deck['cells']:
        c2 = dict(c, n=cmap(c['n']), geom=tree(c['geom']), u=umap(c['u']) if c['u'] else 0,
                  fill=umap(c['fill']) if c['fill'] else 0)
        if c.get('lunivs'):
            c2['lunivs'] = [umap(u) if u else 0 for u in c['lunivs']]
        if c.get('like'):
            c2['like'] = cmap(c['like'])
        cells.append(c2)
    d['cells'] = cells
    return d


RENUMBERINGS = [
    None,
    (lambda n: n + 990, lambda n: n + 994, lambda n: n + 40),          # surfaces and cells straddle 1000
    (lambda n: 7 * n + 3, lambda n: 100 - n, lambda n: n + 1),         # cells in decreasing order
    (lambda n: n + 20, lambda n: 1000 * n + 1, lambda n: 10 * n),      # large, sparse cell numbers
    (lambda n: n + 3000, lambda n: 123450 + n, lambda n: 100000 + n),  # six-digit cell and universe numbers
]


def unit_change(deck, f):
    """The deck with every LENGTH multiplied by f (another unit of length): the same geometry seen at another scale.
    The converter reads the scaled text, TLC the exact deck; the probe point P/2 of the exact deck is the point
    f * P/2 of the scaled one.  Returns (deck for concretise, real points) or None for a card it cannot scale."""
    import copy
    d = copy.deepcopy(deck)
    for s in d['surfs']:
        k, den = s['k'], float(s.get('d', 1))
        p = [v / den for v in s['p']]
        L = lambda idx: [(v * f if i in idx else v) for i, v in enumerate(p)]      # noqa: E731
        n = len(p)
        if k in ('px', 'py', 'pz', 'so', 'cx', 'cy', 'cz', 's', 'sx', 'sy', 'sz', 'c/x', 'c/y', 'c/z', 'tx', 'ty', 'tz',
                 'x', 'y', 'z', 'rpp', 'box', 'rcc', 'sph', 'rhp', 'hex', 'rec', 'trc', 'wed', 'ell'):
            q = L(range(n))
        elif k == 'p':
            q = L([3]) if n == 4 else L(range(n))
        elif k in ('kx', 'ky', 'kz'):
            q = L([0])
        elif k in ('k/x', 'k/y', 'k/z'):
            q = L([0, 1, 2])
        elif k == 'sq':
            q = [p[0], p[1], p[2], p[3] * f, p[4] * f, p[5] * f, p[6] * f * f, p[7] * f, p[8] * f, p[9] * f]
        elif k == 'gq':
            q = [p[0], p[1], p[2], p[3], p[4], p[5], p[6] * f, p[7] * f, p[8] * f, p[9] * f * f]
        elif k == 'arb':
            q = L(range(24))
        else:
            return None
        # selectors that are not lengths stay as they are (cone sheet, ARB facet descriptors)
        keep_int = ([n - 1] if (k in ('kx', 'ky', 'kz') and n == 3) or (k in ('k/x', 'k/y', 'k/z') and n == 5) else []) \
            + (list(range(24, n)) if k == 'arb' else [])
        s['p'] = [(int(s['p'][i]) if i in keep_int else float(q[i])) for i in range(n)]
        s['d'] = 1
    for t in d.get('trs', []):
        t['o'] = [v * f for v in t['o']]
    for c in d['cells']:
        c['trcl'] = {'o': [v * f for v in c['trcl']['o']], 'm': list(c['trcl']['m'])}
        c['ftr'] = {'o': [v * f for v in c['ftr']['o']], 'm': list(c['ftr']['m'])}
    d.pop('plusspell', None)
    pts = [(P[0] / 2.0 * f, P[1] / 2.0 * f, P[2] / 2.0 * f) for P in deck['pts']]
    return d, pts


def pad_cells(deck, n=10):
    """Every plain cell intersected with n more half-spaces that hold everywhere the probe points go (insides of large
    spheres about the origin): intersections of a dozen operands, the same regions."""
    base = max(s['n'] for s in deck['surfs']) + 1
    extra = [dict(SURF_DEFAULTS, n=base + j, k='so', p=[60 + j]) for j in range(n)]
    for c in deck['cells']:
        if c.get('lat') or c.get('like'):
            continue
        pads = [['S', -(base + j), 0] for j in range(n)]
        k = (c['n'] * 7 + len(deck['cells'])) % n        # where the cell's own operands stand among the others
        own = list(c['geom'][1:]) if c['geom'][0] == '*' else [c['geom']]
        c['geom'] = ['*'] + pads[:k] + own + pads[k:]
    deck['surfs'] = list(deck['surfs']) + extra
    deck['padded'] = n
    return deck


def lookalike_numbers(deck):
    """Renumber every other surface card to 1000*c + s with c the number of a cell and s the number of a surface of the
    deck: numbers that LOOK like MCNP's derived numbers 1000*cell+surface but have cards of their own (decks without
    TRCL only: there the derived numbers mean nothing).  None when the deck does not lend itself to it."""
    if any(c['hastrcl'] or c.get('like') for c in deck['cells']) or len(deck['surfs']) < 2:
        return None
    nums = [s['n'] for s in deck['surfs']]
    cnums = sorted(c['n'] for c in deck['cells'])
    if max(nums) >= 1000 or max(cnums) >= 1000:
        return None
    keep = nums[0::2]
    table = {}
    for j, n in enumerate(nums[1::2]):
        table[n] = 1000 * cnums[j % len(cnums)] + keep[j % len(keep)]
    if len(set(table.values())) != len(table):
        return None
    return renumber(deck, smap=lambda n: table.get(n, n))
