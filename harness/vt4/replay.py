"""./check <id> --replay <file>: re-run one recorded violation through the same
converter + TLC validation and print the verdict."""
import json
import sys

from . import conv, core, deckrun, tlc


def replay(prop, path):
    with open(path) as f:
        rep = json.load(f)
    case = rep['case']
    chk = core.Check(prop, clean=False)
    chk.findings = []          # a replay reports whatever it sees
    if 'deck' in case:
        deck = case['deck']
        rec = deckrun.run_deck({'tid': 1, 'deck': deck, 'opts': case.get('opts', []),
                                'text': case.get('text'), 'real_points': case.get('real_points')})
        verd = deckrun.validate(chk, [rec], {1: deck}, case.get('clauses', 'owner,valid'))
        print('replayed text:\n' + rec['text'])
        print('options:', case.get('opts', []))
        print('outcome:', rec['result'], rec['err'])
        print('verdict from TraceDeck.tla:', json.dumps(verd.get(1)))
        bad = bool(verd.get(1, {}).get('bad'))
    elif 'toks' in case:
        from .checks import c11
        bad = c11.replay_case(chk, case)
    elif 'fault' in case and 'text' in case:
        # C17: the injected deck (and its control when recorded) through the entry point, judged by TraceFault.tla
        import shutil
        r = conv.convert(case['text'], case.get('opts', []))
        ctl = conv.convert(case['control_text'], [o for o in case.get('control_opts', case.get('opts', []))]) \
            if case.get('control_text') and case['fault']['class'] not in ('lattice_option', 'lattice_argument') else {'result': 'ok'}
        rec = {'tid': 1, 'control': ctl['result'], 'result': r['result'], 'diag': bool(r['error'] and r['error']['diag']),
               'expected': 'error'}
        sd = tlc.scratch_dir('replay17')
        try:
            core.write_blocks(sd, [rec])
            val = tlc.run('TraceFault', 'INIT Init\nNEXT Next\nCHECK_DEADLOCK FALSE\n', env={'TRACE_DIR': sd}, workers=4)
        finally:
            shutil.rmtree(sd, ignore_errors=True)
        verdicts = [v for b in core.collect_blocks(val) for v in b['bad']]
        print('replayed text:\n' + case['text'])
        print('options:', case.get('opts', []))
        print('fault:', json.dumps(case['fault']))
        print('outcome:', r['result'], r['error'])
        print('verdict from TraceFault.tla:', verdicts or 'ok')
        bad = bool(verdicts)
    else:
        print('replay file has no replayable case; recorded signature:', rep['sig'])
        print(json.dumps(case, indent=1)[:4000])
        return 2
    if bad:
        print('VIOLATION property=%s replay=%s' % (prop, path))
        return 1
    print('no violation on replay')
    return 0


def maybe_replay(prop):
    if '--replay' in sys.argv:
        path = sys.argv[sys.argv.index('--replay') + 1]
        sys.exit(replay(prop, path))
