"""./check <id> --replay <file>: re-run one recorded violation through the same
converter + TLC validation and print the verdict."""
import json
import sys

from . import conv, core, deckrun, tlc


def replay(prop, path):
    with open(path) as f:
        rep = json.load(f)
    case = rep['case']
    chk = core.Check(prop, clean=False)
    chk.findings = []          # a replay reports whatever it sees
    if 'deck' in case:
        deck = case['deck']
        rec = deckrun.run_deck({'tid': 1, 'deck': deck, 'opts': case.get('opts', []),
                                'text': case.get('text')})
        verd = deckrun.validate(chk, [rec], {1: deck}, case.get('clauses', 'owner,valid'))
        print('replayed text:\n' + rec['text'])
        print('options:', case.get('opts', []))
        print('outcome:', rec['result'], rec['err'])
        print('verdict from TraceDeck.tla:', json.dumps(verd.get(1)))
        bad = bool(verd.get(1, {}).get('bad'))
    elif 'toks' in case:
        from .checks import c11
        bad = c11.replay_case(chk, case)
    else:
        print('replay file has no replayable case; recorded signature:', rep['sig'])
        print(json.dumps(case, indent=1)[:4000])
        return 2
    if bad:
        print('VIOLATION property=%s replay=%s' % (prop, path))
        return 1
    print('no violation on replay')
    return 0


def maybe_replay(prop):
    if '--replay' in sys.argv:
        path = sys.argv[sys.argv.index('--replay') + 1]
        sys.exit(replay(prop, path))
