"""Admissible numberings of a deck (Numberings.tla) and their application to abstract decks."""
import json
import shutil

from . import adeck, core, tlc
from .faultsites import leaves

K = 200


def view(deck):
    cells = []
    for c in deck['cells']:
        surfs = sorted({abs(lf[1]) for lf in leaves(c['geom'])}) if not c.get('like') else []
        cells.append({'n': c['n'], 'trcl': bool(c['hastrcl']), 'surfs': surfs})
    return {'cells': cells, 'surfs': [s['n'] for s in deck['surfs']],
            'univs': sorted({c['u'] for c in deck['cells'] if c['u']})}


def _map(base, stride, direction):
    if direction == 1:
        return lambda n: base + stride * n
    return lambda n: base + stride * (K - n)


def apply(deck, p):
    """The deck renumbered by family member p (Numberings!Map)."""
    return adeck.renumber(deck, _map(p['sb'], p['ss'], p['sd']), _map(p['cb'], p['cs'], p['cd']),
                          lambda n: p['ub'] + n)


def eligible(deck):
    """Decks whose numbers are all below K, without LIKE cells, implicit-surface references or lattice options."""
    if any(c.get('like') for c in deck['cells']):
        return False
    nums = [c['n'] for c in deck['cells']] + [s['n'] for s in deck['surfs']]
    for c in deck['cells']:
        nums += [abs(lf[1]) for lf in leaves(c['geom'])]
    return all(0 < n < K for n in nums)


def admissible(chk, decks):
    """index -> list of admissible family members (sorted), computed by Numberings.tla."""
    sd = tlc.scratch_dir('num')
    try:
        core.write_blocks(sd, [{'tid': i + 1, 'deck': view(d)} for i, d in enumerate(decks)])
        res = tlc.run('Numberings', 'INIT Init\nNEXT Next\nCHECK_DEADLOCK FALSE\n', env={'TRACE_DIR': sd}, workers=16,
                      timeout=1800)
    finally:
        shutil.rmtree(sd, ignore_errors=True)
    chk.add_tlc(res)
    out, n = {}, 0
    for blk in core.collect_blocks(res):
        n += blk['n']
        for rec in blk['maps']:
            out[rec['tid'] - 1] = sorted(rec['ok'], key=lambda p: json.dumps(p, sort_keys=True))
    if n != len(decks):
        raise tlc.TLCFailure('Numberings read %d of %d decks' % (n, len(decks)))
    return out


def choose(chk, decks, indices, rng):
    """For the decks at `indices` (normalised): index -> one admissible family member chosen with rng (indices of
    ineligible decks, or decks without admissible member, are left out)."""
    idx = [i for i in indices if eligible(decks[i])]
    if not idx:
        return {}
    try:
        adm = admissible(chk, [decks[i] for i in idx])
    except tlc.TLCFailure as exc:
        chk.machinery(str(exc))
        return {}
    out = {}
    for k, i in enumerate(idx):
        members = adm.get(k, [])
        if members:
            out[i] = rng.choice(members)
    chk.extra['numberings_from_family'] = chk.extra.get('numberings_from_family', 0) + len(out)
    return out
