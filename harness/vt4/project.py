"""Projection of the live converter objects handed to the hook sink (one call per
pass boundary, see t4_geom_convert/Kernel/VerifTrace.py) to the abstract JSON
that TracePipeline.tla reads.  Runs inside the sink, while the objects are still
in the state of that stage."""
import math

from . import t4file


class Recorder:
    """Sink: records the projected state of the stages it is interested in."""

    STAGES = ('parsed', 'lattice', 'fill', 'inline', 'converted', 'dedup', 'pruned', 'final')

    def __init__(self, pts2, max_cells=400):
        self.pts = [(a / 2.0, b / 2.0, c / 2.0) for a, b, c in pts2]
        self.stages = []
        self.names = []
        self.max_cells = max_cells
        self.too_big = False
        self.full_numbering = None
        self.keys_before_lattice = None

    def __call__(self, stage, objs):
        self.names.append(stage)
        if stage == 'complement':
            self.keys_before_lattice = set(objs['cells'].keys())
        if stage not in self.STAGES or self.too_big:
            return
        try:
            if stage == 'parsed':
                self.stages.append(self.parsed_stage(objs))
            elif stage == 'lattice':
                if self.keys_before_lattice is not None:
                    self.stages.append(self.lattice_stage(objs))
            elif stage in ('fill', 'inline'):
                if len(objs['cells']) > self.max_cells:
                    self.too_big = True
                    return
                self.stages.append(self.cell_stage(stage, objs))
            else:
                if len(objs['volumes']) > 4 * self.max_cells:
                    self.too_big = True
                    return
                self.stages.append(self.volume_stage(stage, objs))
        except Exception as exc:   # projection problems are machinery failures, reported by the check
            self.stages.append({'stage': stage, 'kind': 'error', 'error': '%s: %s' % (type(exc).__name__, exc),
                                'cells': [], 'vols': [], 'rows': [], 'renum': [], 'wit': []})

    # -- surfaces -----------------------------------------------------------
    def surf_row(self, surf):
        t4, s = as_t4(surf)
        out = []
        for p in self.pts:
            try:
                out.append(t4file.sense(t4, s, p))
            except (ValueError, ZeroDivisionError, IndexError):
                out.append(0)
        return out

    def coll_rows(self, key, coll):
        """Rows of a surface collection: the whole collection (facet 0) and each facet."""
        sub = [[side * v for v in self.surf_row(surf)] for surf, side in coll.surfs]
        rows = []
        whole = []
        for k in range(len(self.pts)):
            vals = [r[k] for r in sub]
            if all(v < 0 for v in vals):
                whole.append(-1)
            elif any(v > 0 for v in vals):
                whole.append(1)
            else:
                whole.append(0)
        rows.append({'id': key, 'facet': 0, 'row': whole})
        if len(sub) > 1:
            for i, r in enumerate(sub):
                rows.append({'id': key, 'facet': i + 1, 'row': r})
        return rows

    # -- stages -------------------------------------------------------------
    @staticmethod
    def _tr(tr):
        """12-entry transformation -> [exact, doubled integer origin, integer matrix]."""
        if not tr:
            return {'has': False, 'exact': True, 'o2': [0, 0, 0], 'm': [1, 0, 0, 0, 1, 0, 0, 0, 1]}
        vals = [2.0 * float(x) for x in tr[:3]] + [float(x) for x in tr[3:12]]
        exact = all(abs(v - round(v)) <= 1e-9 for v in vals)
        return {'has': True, 'exact': exact, 'o2': [int(round(v)) for v in vals[:3]], 'm': [int(round(v)) for v in vals[3:]]}

    def parsed_stage(self, objs):
        """What the cell parser read of every cell card (LIKE n BUT already expanded)."""
        cells = []
        for key, cell in objs['cells'].items():
            fillid = cell.fillid
            lat = int(cell.lattice) if cell.lattice else 0
            if fillid is None:
                fill, ranges, univs = 0, [], []
            elif isinstance(fillid, int):
                fill, ranges, univs = int(fillid), [], []
            else:       # LatticeSpec
                fill = 0
                ranges = [[int(a), int(b)] for a, b in fillid.bounds]
                univs = [int(u) for u in fillid.spec]
            trcl = cell.trcl[0] if cell.trcl else ()
            try:
                mat = int(cell.materialID)
            except (TypeError, ValueError):
                mat = -1
            cells.append({'key': int(key), 'u': int(cell.universe), 'zeroimp': bool(cell.importance == 0), 'lat': lat,
                          'fill': fill, 'ranges': ranges, 'univs': univs, 'mat': mat,
                          'ftr': self._tr(cell.filltr), 'trcl': self._tr(trcl), 'ntrcl': len(cell.trcl)})
        return {'stage': 'parsed', 'kind': 'parsed', 'pcells': cells, 'cells': [], 'rows': [], 'vols': [], 'renum': [],
                'wit': []}

    def lattice_stage(self, objs):
        """The cells created by the lattice pass: universe they live in, what fills them (0 = nothing, i.e. the
        element keeps the lattice cell's material) and the transformation that places the filling universe
        (doubled integer origin, integer matrix: exact decks only)."""
        elems = []
        for key, cell in objs['cells'].items():
            if key in self.keys_before_lattice:
                continue
            tr = tuple(cell.filltr) if cell.filltr else (0.0, 0.0, 0.0, 1.0, 0.0, 0.0, 0.0, 1.0, 0.0, 0.0, 0.0, 1.0)
            vals = [2.0 * float(x) for x in tr[:3]] + [float(x) for x in tr[3:12]]
            if any(abs(v - round(v)) > 1e-6 for v in vals):
                raise ValueError('non-integer lattice placement %r' % (tr,))
            elems.append({'key': int(key), 'u': int(cell.universe), 'fill': int(cell.fillid) if cell.fillid is not None else 0,
                          'o2': [int(round(v)) for v in vals[:3]], 'm': [int(round(v)) for v in vals[3:]]})
        return {'stage': 'lattice', 'kind': 'lattice', 'elems': elems, 'cells': [], 'rows': [], 'vols': [], 'renum': [],
                'wit': []}

    def cell_stage(self, stage, objs):
        cells = []
        used = set()
        for key, cell in objs['cells'].items():
            conv = bool(cell.importance != 0 and cell.universe == 0 and cell.fillid is None)
            geom = tree(cell.geometry)
            collect_surfs(geom, used)
            cells.append({'key': int(key), 'conv': conv, 'geom': geom,
                          'origin': [[int(a), int(b)] for a, b in cell.idorigin]})
        rows = []
        for key in sorted(used):
            rows += self.coll_rows(key, objs['surf_t4'][key])
        return {'stage': stage, 'kind': 'cells', 'cells': cells, 'rows': rows, 'vols': [], 'renum': [], 'wit': []}

    def volume_stage(self, stage, objs):
        vols = []
        used = set()
        for key, vol in objs['volumes'].items():
            toks = (str(vol) + ' ENDV').split()
            kinds, vals = t4file.vol_tokens({'toks': toks})
            vols.append({'id': int(key), 'tk': kinds, 'tv': vals,
                         'origin': [[int(a), int(b)] for a, b in vol.idorigin]})
            used |= set(vol.pluses) | set(vol.minuses)
        numbering = objs['numbering']
        if stage == 'converted':
            self.full_numbering = dict(numbering.items())
        rows, wit = [], []
        renum = []
        if stage == 'dedup':
            renum = [[int(a), int(b)] for a, b in sorted(objs['renumber'].items()) if a != b]
            used |= {a for a, _ in renum} | {b for _, b in renum}
        full = self.full_numbering
        for key in sorted(used):
            surf = numbering[key] if key in numbering else (full[key] if full and key in full else None)
            if surf is None:
                continue
            rows.append({'id': int(key), 'row': self.surf_row(surf)})
            if stage == 'dedup':
                t4, s = as_t4(surf)
                w = t4file.witness(t4, s)
                w['id'] = int(key)
                wit.append(w)
        return {'stage': stage, 'kind': 'vols', 'cells': [], 'vols': vols, 'rows': rows, 'renum': renum, 'wit': wit}


def as_t4(surf):
    """SurfaceT4 object -> (pseudo file, pseudo SURF record) for t4file.surf_value."""
    s = {'id': 1, 'type': surf.type_surface.name, 'ptoks': [repr(float(x)) for x in surf.param_surface], 'tr': None,
         'comment': ''}
    t4 = {'transforms': []}
    if surf.transform is not None:
        tr = [float(x) for x in surf.transform[0].flatten('C')] + [float(x) for x in surf.transform[1].flatten('C')]
        t4['transforms'].append({'id': 1, 'kw': 'MATRIX', 'p': [repr(x) for x in tr]})
        s['tr'] = 1
    return t4, s


def tree(t):
    from MIP.geom.semantics import Surface
    if isinstance(t, Surface):
        return ['S', int(t.surface), int(t.sub) if t.sub is not None else 0]
    if isinstance(t, bool):
        raise TypeError('bool in tree')
    if isinstance(t, int):
        return ['S', t, 0]
    if type(t).__name__ == 'CellRef':
        return ['R', int(t.cell)]
    if isinstance(t, (tuple, list)) and t and t[0] in ('*', ':'):
        return [t[0]] + [tree(x) for x in t[1:]]
    raise TypeError('cannot project %r' % (t,))


def collect_surfs(t, acc):
    if t[0] == 'S':
        acc.add(abs(t[1]))
    elif t[0] in ('*', ':'):
        for k in t[1:]:
            collect_surfs(k, acc)
