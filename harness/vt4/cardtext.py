"""Tokenised deck text for Cards.tla: canonical seed decks -> line records, and
rendering of (rewritten) line records back to text."""
import re

from . import adeck

NUM = re.compile(r'^[-+]?(\d+\.?\d*|\.\d+)([eE][-+]?\d+)?$')


def number_alts(text, integer_ok=True):
    """Equivalent MCNP spellings of a number (same value; Fortran forms included)."""
    try:
        val = float(text)
    except ValueError:
        return []
    alts = []
    if val == int(val) and abs(val) < 1000:
        i = int(val)
        alts += ['%d.' % i, '%d.0' % i, '%d.0e0' % i, '%d.+0' % i, '%dd0' % i] if not integer_ok else \
                ['%d.0' % i, '%d.' % i, '%de0' % i, '%d.0+0' % i, '%d.0d0' % i]
    else:
        m = ('%r' % val)
        alts += [m + '0', m + 'e0', m + '+0', m.replace('0.', '.', 1) if m.startswith('0.') or m.startswith('-0.') else m + 'E+0',
                 '%.4fd0' % val if abs(val * 10000 - round(val * 10000)) < 1e-9 else m + 'D0']
    # exponents with two digits, with and without the letter: 2.7 = 27000000000.-10 = 2.7e+00 = 0.00000000027+10
    if val == int(val) and abs(val) < 1000:
        alts += ['%d0000000000.-10' % int(val), '%d.0e+00' % int(val)] if val else ['0.0-10', '0.0e+00']
    else:
        for digits in range(1, 7):
            scaled = val * 10 ** (10 + digits)
            if abs(scaled - round(scaled)) < 1e-6 * max(1.0, abs(scaled)) and abs(scaled) < 1e17:
                alts += ['%d.-%d' % (round(scaled), 10 + digits), ('%r' % val) + 'e+00']
                break
    if val > 0 and not text.startswith('+'):
        alts.append('+' + text)
    out = []
    for a in alts:
        try:
            if adeck.mcnp_float(a) == val and a != text and a not in out:
                out.append(a)
        except ValueError:
            pass
    return out


def tokenise(text, respell):
    """Canonical deck text -> list of line records.  respell(block, card_tokens, j) tells whether token j of a
    card may be respelled as a number."""
    lines = []
    block = 0
    first = True
    for raw in text.split('\n'):
        if raw.strip() == '':
            if lines and lines[-1]['kind'] != 'blank':
                lines.append(blank())
                block += 1
            continue
        words = raw.split()
        toks = []
        # entries of a FILL array on a cell card: the integers that follow the last i:j range
        arr = set()
        if block == 0 and not first:
            last_range = max([k for k, w in enumerate(words) if re.match(r'^(\*?fill=)?-?\d+:-?\d+$', w.lower())], default=-1)
            k = last_range + 1
            while last_range >= 0 and k < len(words) and re.match(r'^\d+$', words[k]):
                arr.add(k)
                k += 1
        for j, w in enumerate(words):
            lw = w.lower()
            alts = number_alts(lw) if (not first and NUM.match(lw) and respell(block, [x.lower() for x in words], j)) else []
            toks.append({'id': lw, 'w': lw, 'alts': alts, 'rep': 0, 'ok': bool(not first and j >= 2),
                         'val': int(lw) if re.match(r'^-?\d+$', lw) and abs(int(lw)) < 10000 else 0,
                         'kind': '', 'n': 0, 'exp': [], 'arr': bool(j in arr), 'jok': bool(j == 0 and re.match(r'^tr\d+$', lw) and len(words) == 13
                                                                    and tr_row_is_default(words))})
        lines.append({'kind': 'text', 'lead': [], 'toks': toks, 'seps': [['b'] for _ in toks[1:]], 'amp': False,
                      'dollar': False, 'upper': False, 'frozen': first})
        first = False
    while lines and lines[-1]['kind'] == 'blank':
        lines.pop()
    return lines


def tr_row_is_default(words):
    """The last row of the TR matrix equals the cross product of the first two (what 3J defaults to)."""
    try:
        m = [float(x) for x in words[4:13]]
    except ValueError:
        return False
    a, b, c = m[0:3], m[3:6], m[6:9]
    cross = [a[1] * b[2] - a[2] * b[1], a[2] * b[0] - a[0] * b[2], a[0] * b[1] - a[1] * b[0]]
    return all(abs(x - y) < 1e-12 for x, y in zip(cross, c))


def blank():
    return {'kind': 'blank', 'lead': [], 'toks': [], 'seps': [], 'amp': False, 'dollar': False, 'upper': False,
            'frozen': True}


DOLLAR_TEXTS = [' $ in-line comment, with words', ' $ see the R&D note &', ' $comment', ' $ a & b $ once more &  ',
                ' $ 1 2 3 imp:n=0 u=7']


def ws(seq):
    return ''.join(' ' if c == 'b' else '\t' for c in seq)


def render(lines):
    out = []
    for l in lines:
        if l['kind'] == 'blank':
            out.append('')
            continue
        if l['kind'] == 'comment':
            out.append(ws(l['lead']) + ('C' if l['upper'] else 'c') + ' a full-line comment')
            continue
        s = ws(l['lead'])
        for j, t in enumerate(l['toks']):
            if j:
                s += ws(l['seps'][j - 1])
            s += t['w'].upper() if l['upper'] else t['w']
        if l['amp']:
            s += ' &'
        if l['dollar']:
            # the text of a comment means nothing, whatever it contains or ends with
            s += DOLLAR_TEXTS[(len(out) + len(l['toks'])) % len(DOLLAR_TEXTS)]
        out.append(s)
    return '\n'.join(out) + '\n'
