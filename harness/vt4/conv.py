"""Run the real converter (from /repo's working tree) in-process.

The two observable ends are what decides every property: deck text + options
in, written file / exception / stdout NOTE out.  Per-pass states arrive through
the guarded hook module when it is present (see trace.py).
"""
import contextlib
import io
import linecache
import os
import shutil
import sys
import tempfile
import traceback
import warnings

REPO = os.environ.get('VT4_REPO', '/repo')
if REPO not in sys.path[:1]:
    sys.path.insert(0, REPO)
os.environ.setdefault('T4_GEOM_CONVERT_VERIF', '1')

_ready = False


def _setup():
    global _ready
    if _ready:
        return
    from . import shim
    shim.install()
    _ready = True


_RAISE_SPANS = {}


def _in_raise_statement(fname, lineno):
    """Is source line `lineno` of `fname` part of a `raise` statement (possibly spanning several lines)?"""
    import ast
    spans = _RAISE_SPANS.get(fname)
    if spans is None:
        spans = []
        try:
            with open(fname, encoding='utf-8') as f:
                tree = ast.parse(f.read())
            for node in ast.walk(tree):
                if isinstance(node, ast.Raise):
                    spans.append((node.lineno, getattr(node, 'end_lineno', node.lineno)))
        except (OSError, SyntaxError):
            pass
        _RAISE_SPANS[fname] = spans
    return any(a <= lineno <= b for a, b in spans)


def classify_exception(exc):
    """DESIGN.md C17: an error is a *diagnostic* iff the innermost traceback
    frame is a ``raise`` statement located in the repo's own sources."""
    tb = traceback.extract_tb(exc.__traceback__)
    where, diag = '', False
    if tb:
        last = tb[-1]
        fname = os.path.abspath(last.filename)
        inrepo = fname.startswith(os.path.abspath(REPO) + os.sep)
        israise = inrepo and _in_raise_statement(fname, last.lineno)
        diag = bool(inrepo and israise)
        where = '%s:%s' % (os.path.relpath(fname, REPO) if inrepo else fname, last.name)
    return {'type': type(exc).__name__, 'msg': str(exc)[:400], 'diag': diag, 'where': where}


def strip_header(text):
    """Drop the three '//' header lines (they echo sys.argv)."""
    lines = text.split('\n')
    i = 0
    while i < len(lines) and i < 3 and lines[i].startswith('//'):
        i += 1
    return '\n'.join(lines[i:])


def convert(text, opts=(), encoding='utf-8', keep_header=False, sink=None, raw_bytes=None):
    """Convert deck `text` with CLI options `opts`.  Returns a dict:
    result ('ok'|'error'), out (file text, header stripped), stdout, error,
    warnings (list of str), stages (hook payloads projected by `sink`)."""
    _setup()
    from t4_geom_convert.main import parse_args, conversion
    tmp = tempfile.mkdtemp(prefix='vt4_')
    res = {'result': 'ok', 'out': None, 'stdout': '', 'error': None, 'warnings': [],
           'input_untouched': True, 'dir_clean': True}
    try:
        inp = os.path.join(tmp, 'deck.imcnp')
        outp = os.path.join(tmp, 'deck.t4')
        data = raw_bytes if raw_bytes is not None else text.encode(encoding)
        with open(inp, 'wb') as f:
            f.write(data)
        buf = io.StringIO()
        old_argv = sys.argv
        sys.argv = ['t4_geom_convert']
        hook = _hook_module()
        if hook is not None:
            hook.set_sink(sink)
        try:
            with warnings.catch_warnings(record=True) as wlist:
                warnings.simplefilter('always')
                with contextlib.redirect_stdout(buf), contextlib.redirect_stderr(io.StringIO()):
                    try:
                        args = parse_args(['-o', outp, '-e', encoding, inp] + list(opts))
                        conversion(args)
                    except SystemExit as exc:   # argparse errors
                        res['result'] = 'error'
                        res['error'] = {'type': 'SystemExit', 'msg': str(exc), 'diag': True,
                                        'where': 'argparse'}
                    except Exception as exc:   # pylint: disable=broad-except
                        res['result'] = 'error'
                        res['error'] = classify_exception(exc)
            res['warnings'] = [str(w.message)[:300] for w in wlist]
        finally:
            sys.argv = old_argv
            if hook is not None:
                hook.set_sink(None)
        res['stdout'] = buf.getvalue()
        if res['result'] == 'ok':
            with open(outp, encoding='utf-8') as f:
                out = f.read()
            res['out'] = out if keep_header else strip_header(out)
        with open(inp, 'rb') as f:
            res['input_untouched'] = (f.read() == data)
        res['dir_clean'] = sorted(os.listdir(tmp)) in (['deck.imcnp'], ['deck.imcnp', 'deck.t4'])
    finally:
        shutil.rmtree(tmp, ignore_errors=True)
    return res


def _hook_module():
    try:
        from t4_geom_convert.Kernel import VerifTrace
        return VerifTrace
    except Exception:   # pylint: disable=broad-except
        return None


def note_cells(stdout):
    """Cells listed in the end-of-run NOTE, or [] when there is none."""
    import re
    m = re.search(r'NOTE: the following cells have been omitted.*?\n\s*\[(.*?)\]', stdout, re.S)
    if not m:
        return []
    return [int(x) for x in m.group(1).replace(',', ' ').split()]


# ---------------------------------------------------------------------------
# batch execution over worker processes

def _job(job):
    fn, arg = job
    try:
        return fn(arg)
    except Exception as exc:   # machinery failure inside a worker
        return {'machinery_error': '%s: %s\n%s' % (type(exc).__name__, exc, traceback.format_exc())}


def run_batch(fn, args, nproc=None, chunksize=8):
    """Apply `fn` (top-level function) to every element of `args` in a pool."""
    import multiprocessing as mp
    nproc = nproc or min(16, os.cpu_count() or 1)
    args = list(args)
    if len(args) <= 4 or nproc == 1:
        return [_job((fn, a)) for a in args]
    ctx = mp.get_context('fork')
    with ctx.Pool(nproc) as pool:
        return pool.map(_job, [(fn, a) for a in args], chunksize=chunksize)
