"""C18 - conversion is deterministic and leaves no state between runs.

Session.tla enumerates every history of Convert(deck, options) calls up to a
length bound over a pool of decks (plain, FILL with cache reuse, the same deck
with other surface definitions under the same transformation, lattice with
--lattice, LIKE-BUT, one that raises) and option sets.  Each history is replayed
in one interpreter; TraceSession.tla compares every output with the table of
outputs obtained in fresh processes, which must itself be identical under
PYTHONHASHSEED 0, 1 and VERIF_SEED.
"""
import hashlib
import json
import multiprocessing as mp
import os
import random
import shutil
import subprocess
import sys

from .. import conv, core, tlc

DECKS = [
    # 1 plain Boolean deck with a union and a complement
    ('plain', 'plain deck\n1 1 -2.7 -1 (2:-3) imp:n=1\n2 2 -1.0 -1 #1 imp:n=1\n3 0 1 imp:n=0\n\n1 so 5\n2 px 1\n3 py 0\n\nm1 13027 1\nm2 8016 1\n', []),
    # 2 FILL with a transformation, universe used twice (transformation caches)
    ('fill', 'fill deck\n1 0 -1 fill=1 (2 0 0) imp:n=1\n2 0 1 -2 fill=1 (0 0 1) imp:n=1\n3 0 2 imp:n=0\n11 1 -2.7 -11 u=1 imp:n=1\n'
             '12 2 -1.0 11 u=1 imp:n=1\n\n1 so 3\n2 so 6\n11 px 0\n\nm1 13027 1\nm2 8016 1\n', []),
    # 3 same numbers, other definitions, same transformations
    ('fill2', 'fill deck two\n1 0 -1 fill=1 (2 0 0) imp:n=1\n2 0 1 -2 fill=1 (0 0 1) imp:n=1\n3 0 2 imp:n=0\n11 1 -2.7 -11 u=1 imp:n=1\n'
              '12 2 -1.0 11 u=1 imp:n=1\n\n1 so 2\n2 so 7\n11 py 1\n\nm1 13027 1\nm2 8016 1\n', []),
    # 4 lattice with --lattice
    ('lattice', 'lattice deck\n1 0 -1 fill=1 imp:n=1\n2 0 1 imp:n=0\n10 0 -11 12 -13 14 lat=1 u=1 fill=7 imp:n=1\n21 1 -2.7 -21 u=7 imp:n=1\n'
                '22 0 21 u=7 imp:n=1\n\n1 so 5\n11 px 1\n12 px -1\n13 py 1\n14 py -1\n21 so 0.5\n\nm1 13027 1\n', ['--lattice', '10,-1:1,-1:0']),
    # the --lattice option given several times for one cell (the last one counts)
    ('latticerepeat', 'lattice deck\n1 0 -1 fill=1 imp:n=1\n2 0 1 imp:n=0\n10 0 -11 12 -13 14 lat=1 u=1 fill=7 imp:n=1\n21 1 -2.7 -21 u=7 imp:n=1\n'
                      '22 0 21 u=7 imp:n=1\n\n1 so 5\n11 px 1\n12 px -1\n13 py 1\n14 py -1\n21 so 0.5\n\nm1 13027 1\n',
     ['--lattice', '10,-1:1,-1:1', '--lattice', '10,0:0,0:0', '--lattice', '10,-1:0,0:0', '--lattice', '10,0:1,-1:0',
      '--lattice', '10,-1:1,0:0', '--lattice', '10,-1:1,-1:0']),
    # a reflecting and a white surface on one plane, both used: the de-duplication merges them (the first flag counts)
    ('bcmerge', 'bc deck\n1 0 -1 3 imp:n=1\n2 0 2 -4 imp:n=1\n3 0 -3 : 4 imp:n=0\n\n*1 px 5\n+2 px 5\n3 px 0\n4 px 9\n\n', []),
    # densities written with many digits (long composition names)
    ('longdensity', 'long density deck\n1 1 -7.87400000125 -1 imp:n=1\n2 2 6.02214076199e-2 1 -2 imp:n=1\n3 0 2 imp:n=0\n\n1 so 2\n2 so 4\n\n'
                    'm1 26056 1\nm2 1001 2 8016 1\n', []),
    # 5 LIKE n BUT with TRCL
    ('like', 'like deck\n1 1 -2.7 1 -2 imp:n=1\n2 like 1 but trcl=(2 0 0) mat=2 rho=-1.0\n3 0 -1 imp:n=1\n4 0 3 imp:n=0\n5 0 2 -3 #2 imp:n=1\n\n'
             '1 px -1\n2 px 1\n3 px 5\n\nm1 13027 1\nm2 8016 1\n', []),
    # volumes that become empty only after de-duplication (the pruning pass really removes something):
    # a zero-thickness layer between two copies of a plane, inside a union
    ('sliver', 'sliver deck\n1 1 -2.7 (1 -2 4 -5):-3 imp:n=1\n2 0 #1 -6 imp:n=1\n3 0 6 imp:n=0\n\n1 px 5\n2 px 5\n3 so 2\n4 py -1\n5 py 1\n6 so 9\n\nm1 13027 1\n', []),
    # a universe whose cut plane is shifted onto the wall of its container
    ('wallfill', 'wall fill deck\n1 0 -1 fill=1 (1 0 0) imp:n=1\n2 0 1 -2 imp:n=1\n3 0 2 imp:n=0\n11 1 -2.7 -11 u=1 imp:n=1\n12 2 -1.0 11 u=1 imp:n=1\n\n'
                 '1 px 3\n2 px 8\n11 px 2\n\nm1 13027 1\nm2 8016 1\n', []),
    # the same with a two-surface container and other numbers
    ('wallfill2', 'wall fill deck two\n4 0 -3 5 fill=2 (0 1 0) imp:n=1\n5 0 3 imp:n=1\n6 0 -5 imp:n=0\n7 1 -2.7 -7 u=2 imp:n=1\n8 2 -1.0 7 -8 u=2 imp:n=1\n'
                  '9 0 8 u=2 imp:n=1\n\n3 py 4\n5 py -6\n7 py 3\n8 py 9\n\nm1 13027 1\nm2 8016 1\n', []),
    # one material at many densities, some of them the same number in another spelling (ordering of sets of strings)
    ('densities', 'densities deck\n1 1 -2.7 -1 imp:n=1\n2 1 -0.27e1 1 -2 imp:n=1\n3 1 -27.e-1 2 -3 imp:n=1\n4 1 -1.5 3 -4 imp:n=1\n'
                  '5 1 -11.34 4 -5 imp:n=1\n6 1 0.05 5 -6 imp:n=1\n7 2 -7.8 6 -7 imp:n=1\n8 2 -0.78e1 7 -8 imp:n=1\n9 0 8 imp:n=0\n\n'
                  '1 so 1\n2 so 2\n3 so 3\n4 so 4\n5 so 5\n6 so 6\n7 so 7\n8 so 8\n\nm1 13027 1\nm2 26056 1\n', []),
    # two hexagonal lattices whose side planes have the same normals and another pitch (memoised geometry helpers)
    ('hexa', 'hex deck a\n1 0 -1 fill=1 imp:n=1\n2 0 1 imp:n=0\n10 0 -11 -12 -13 -14 -15 -16 lat=2 u=1 fill=-1:1 -1:1 0:0 7 8 7 8 7 8 7 8 7 imp:n=1\n'
             '21 1 -2.7 -21 u=7 imp:n=1\n22 0 21 u=7 imp:n=1\n31 0 -21 u=8 imp:n=1\n32 1 -2.7 21 u=8 imp:n=1\n\n1 so 9\n'
             '11 p 0 2 0 4\n12 p 0 -2 0 4\n13 p 2 2 0 8\n14 p -2 -2 0 0\n15 p -2 0 0 0\n16 p 2 0 0 8\n21 pz 0\n\nm1 13027 1\n', []),
    ('hexb', 'hex deck b\n1 0 -1 fill=1 imp:n=1\n2 0 1 imp:n=0\n10 0 -11 -12 -13 -14 -15 -16 lat=2 u=1 fill=-1:1 -1:1 0:0 7 8 7 8 7 8 7 8 7 imp:n=1\n'
             '21 1 -2.7 -21 u=7 imp:n=1\n22 0 21 u=7 imp:n=1\n31 0 -21 u=8 imp:n=1\n32 1 -2.7 21 u=8 imp:n=1\n\n1 so 9\n'
             '11 p 0 2 0 2\n12 p 0 -2 0 2\n13 p 2 2 0 4\n14 p -2 -2 0 0\n15 p -2 0 0 0\n16 p 2 0 0 4\n21 pz 0\n\nm1 13027 1\n', []),
    # a one-sheet cone (cone + auxiliary plane) in a cell with TRCL and in a filled universe: labels of generated surfaces
    ('cone', 'cone deck\n1 1 -2.7 -1 -2 trcl=(0 0 5) imp:n=1\n2 0 -3 fill=1 (0 0 -4) imp:n=1\n3 0 #1 #2 -4 imp:n=1\n4 0 4 imp:n=0\n'
             '11 2 -1.0 -1 u=1 imp:n=1\n12 0 1 u=1 imp:n=1\n\n1 kz 0 1 1\n2 pz 3\n3 s 0 0 -6 2\n4 so 20\n\nm1 13027 1\nm2 8016 1\n', []),
    # importances for two particle types on some cards, for one on others (per-card bookkeeping of particle types)
    ('coupled', 'coupled deck\n1 0 -1 fill=1 imp:n,p=1\n2 0 1 imp:n,p=0\n11 1 -2.7 -11 u=1 imp:n,p=2\n12 2 -1.0 11 u=1 imp:p=3\n\n'
                '1 so 4\n11 px 0\n\nm1 13027 1\nm2 8016 1\n', []),
    ('neutrononly', 'neutron deck\n1 1 -2.7 -1 imp:n=1\n2 0 1 imp:n=0\n\n1 so 4\n\nm1 13027 1\n', []),
    # 6 a deck that raises (unknown surface type)
    ('raises', 'bad deck\n1 0 -1 imp:n=1\n2 0 1 imp:n=0\n\n1 qq 5\n\n', []),
]
OPTS = [[], ['--skip-deduplication'], ['--always-inline-filling', '--always-inline-filled'], ['--max-inline-score', '10']]
FIXED = len(DECKS)


def add_generated_decks(chk, seed, want_prune=3, want_univ=3):
    """Extend the pool with generated decks: Boolean decks in which the pruning pass really removes volumes
    (volumes that become empty only after de-duplication) and universe decks (fill / transformation caches)."""
    import random
    from .. import adeck, pipeline
    from . import common_bool, common_univ
    rng = random.Random(seed)
    scratch = core.Check('C18', clean=False)
    bools = common_bool.generate(scratch, False, seed + 18, nsim_quick=400)
    univs = common_univ.generate(scratch, False, seed + 18, nquick=200)
    chk.cov['states'] += scratch.cov['states']
    chk.cov['transitions'] += scratch.cov['transitions']
    rng.shuffle(bools)
    rng.shuffle(univs)
    picked = 0
    for d in bools[:250]:
        d = adeck.normalise(d)
        d['pts'] = []
        rec = pipeline.run_traced({'tid': 0, 'deck': d, 'opts': []})
        if rec['result'] != 'ok':
            continue
        nv = {s['stage']: len(s['vols']) for s in rec['stages'] if s['kind'] == 'vols'}
        if nv.get('pruned', 0) < nv.get('dedup', nv.get('converted', 0)):
            DECKS.append(('prune%d' % picked, rec['text'], []))
            picked += 1
            if picked >= want_prune:
                break
    for i, d in enumerate(univs[:want_univ]):
        d = adeck.simple_materials(adeck.normalise(d))
        DECKS.append(('univ%d' % i, adeck.concretise(d), []))


def digest(res):
    if res['result'] != 'ok':
        return 'error:%s' % (res['error']['type'] if res['error'] else '?')
    return hashlib.sha1(res['out'].encode()).hexdigest()[:16]


def call(d, o):
    name, text, base = DECKS[d - 1]
    res = conv.convert(text, base + OPTS[o - 1])
    return digest(res), res['input_untouched'], res['dir_clean']


def replay_history(job):
    tid, hist = job
    outs, untouched, clean = [], True, True
    for d, o in hist:
        dg, u, c = call(d, o)
        outs.append(dg)
        untouched = untouched and u
        clean = clean and c
    return {'tid': tid, 'hist': hist, 'outs': outs, 'inputs_untouched': untouched, 'clean': clean}


def replay_chunk(chunk):
    return [replay_history(j) for j in chunk]


def fresh_table(seed, only_opts=None):
    """Outputs of every (deck, options) call, each in a fresh interpreter with the given hash seed."""
    pool_file = os.path.join(tlc.scratch_dir('c18pool'), 'pool.json')
    with open(pool_file, 'w') as f:
        json.dump(DECKS, f)
    code = ('import sys, json\nsys.path.insert(0, %r)\nfrom vt4.checks import c18\n'
            'print(json.dumps({"%%d,%%d" %% (d, o): c18.call(d, o)[0] for d in range(1, %d) for o in range(1, %d)}))\n'
            % (os.path.join(core.VERIF, 'harness'), len(DECKS) + 1, len(OPTS) + 1))
    table = {}
    procs = []
    for d in range(1, len(DECKS) + 1):
        for o in (only_opts or range(1, len(OPTS) + 1)):
            one = ('import sys, json\nsys.path.insert(0, %r)\nfrom vt4.checks import c18\n'
                   'c18.DECKS[:] = [tuple(x) for x in json.load(open(%r))]\nprint(c18.call(%d, %d)[0])\n'
                   % (os.path.join(core.VERIF, 'harness'), pool_file, d, o))
            env = dict(os.environ, PYTHONHASHSEED=str(seed))
            procs.append(((d, o), subprocess.Popen([sys.executable, '-W', 'ignore', '-c', one], env=env,
                                                    stdout=subprocess.PIPE, stderr=subprocess.PIPE, text=True)))
    for key, p in procs:
        out, err = p.communicate(timeout=300)
        if p.returncode != 0:
            raise RuntimeError('fresh process failed: %s' % err[-500:])
        table['%d,%d' % key] = out.strip().splitlines()[-1]
    shutil.rmtree(os.path.dirname(pool_file), ignore_errors=True)
    return table


def main():
    chk = core.Check('C18')
    thorough = chk.tier == 'thorough'
    rng = random.Random(chk.seed)
    core.lap('start')
    try:
        add_generated_decks(chk, chk.seed)
    except tlc.TLCFailure as exc:
        chk.machinery(str(exc))
        return chk.finish()
    core.lap('pool of %d decks' % len(DECKS))
    maxlen = 3
    try:
        cfg = ('INIT Init\nNEXT Next\nCONSTANTS NDecks = %d\n NOpts = %d\n MaxLen = %d\nCHECK_DEADLOCK FALSE\n'
               % (len(DECKS), len(OPTS), maxlen))
        res = tlc.run('Session', cfg, workers=16, timeout=900)
        chk.add_tlc(res)
        hists = [r['hist'] for r in tlc.printed_json(res['stdout']) if isinstance(r, dict) and 'hist' in r]
    except tlc.TLCFailure as exc:
        chk.machinery(str(exc))
        return chk.finish()
    uniq = {json.dumps(h): h for h in hists}
    hists = [uniq[k] for k in sorted(uniq)]
    ntotal = len(hists)
    if not thorough:
        short = [h for h in hists if len(h) <= 2]
        long_ = [h for h in hists if len(h) > 2]
        hists = short + rng.sample(long_, min(len(long_), 1800))
    core.lap('generator')
    seeds = sorted({0, 1, chk.seed if chk.seed not in (0, 1) else 12345})
    try:
        tables = [fresh_table(s) for s in seeds]
    except (RuntimeError, subprocess.TimeoutExpired) as exc:
        chk.machinery(str(exc))
        return chk.finish()
    # six more hash seeds under the default options (a two-element set has two orders: 3 seeds agree by chance too often)
    extra = [s for s in (2, 3, 5, 6, 8, 11) if s not in seeds]
    try:
        tables += [fresh_table(s, only_opts=[1]) for s in extra]
    except (RuntimeError, subprocess.TimeoutExpired) as exc:
        chk.machinery(str(exc))
        return chk.finish()
    seeds = seeds + extra
    core.lap('fresh processes x%d' % (3 * len(DECKS) * len(OPTS) + len(extra) * len(DECKS)))
    pure = tables[0]
    for s, t in zip(seeds[1:], tables[1:]):
        for key in t:
            if t[key] != pure[key]:
                d, o = map(int, key.split(','))
                chk.violation({'clause': 'hash_seed_dependent', 'deck': DECKS[d - 1][0], 'opts': ' '.join(OPTS[o - 1])},
                              {'text': DECKS[d - 1][1], 'opts': DECKS[d - 1][2] + OPTS[o - 1], 'seeds': [seeds[0], s]})
    jobs = [(i + 1, h) for i, h in enumerate(hists)]
    ctx = mp.get_context('fork')
    # every 40 histories a fresh child (forked before any conversion); inside a child the histories run
    # back to back, so each one is additionally preceded by the earlier ones of its chunk
    with ctx.Pool(16, maxtasksperchild=1) as pool:
        chunks = [jobs[i:i + 40] for i in range(0, len(jobs), 40)]
        results = [r for part in pool.map(replay_chunk, chunks, chunksize=1) for r in part]
    core.lap('histories x%d' % len(jobs))
    traces = [dict(r, pure=[pure['%d,%d' % (d, o)] for d, o in r['hist']]) for r in results]
    sd = tlc.scratch_dir('c18')
    core.write_blocks(sd, traces)
    try:
        val = tlc.run('TraceSession', 'INIT Init\nNEXT Next\nCHECK_DEADLOCK FALSE\n', env={'TRACE_DIR': sd}, workers=16)
    except tlc.TLCFailure as exc:
        chk.machinery(str(exc))
        return chk.finish()
    finally:
        shutil.rmtree(sd, ignore_errors=True)
    chk.add_tlc(val)
    byid = {r['tid']: r for r in results}
    nval, nt = 0, 0
    for b in core.collect_blocks(val):
        nval += b['n']
        nt += b['nontrivial']
        for tid, verdict, first in b['bad']:
            r = byid[tid]
            names = [DECKS[d - 1][0] for d, _ in r['hist']]
            sig = {'clause': verdict, 'deck': names[first - 1] if first else None,
                   'after': '+'.join(sorted(set(names[:first - 1]))) if first else None}
            chk.violation(sig, {'history': [[DECKS[d - 1][0], OPTS[o - 1]] for d, o in r['hist']], 'outs': r['outs'],
                                'pure': [pure['%d,%d' % (d, o)] for d, o in r['hist']]})
    if nval != len(traces):
        chk.machinery('TraceSession validated %d of %d' % (nval, len(traces)))
    chk.cov['traces_validated_against_impl'] = nval
    chk.cov['evaluations'] = sum(len(h) for h in hists) + len(seeds) * len(pure)
    chk.cov['distinct_nontrivial'] = nt
    for r in results[:1] + results[len(results) // 2:len(results) // 2 + 2]:
        chk.sample({'history': [[DECKS[d - 1][0], OPTS[o - 1]] for d, o in r['hist']], 'outs': r['outs']})
    chk.extra['rule'] = ('distinct = distinct histories; non-trivial = the same call occurs twice with a different call in between '
                         '(counted by TraceSession.tla)')
    chk.extra['histories_enumerated_by_tlc'] = ntotal
    chk.extra['hash_seeds'] = seeds
    chk.extra['exhaustive'] = bool(thorough)
    chk.assumptions += ['"whatever the hash seed": sampled seeds %s; TLA+ has nothing to say about CPython hashing' % seeds,
                        '--cache is excluded: it is an explicit request to leave state on disk',
                        'each history starts in a forked child of a parent that has imported the converter but converted nothing']
    return chk.finish()


if __name__ == '__main__':
    sys.exit(main())
