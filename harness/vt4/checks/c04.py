"""C04 - coordinate transformations move surfaces and cells by the MCNP rigid motion.

Part A (geometry): GenTr.tla enumerates (surface sample) x (24 signed-permutation
rotations) x displacement x carrier x spelling; each record becomes a deck whose
expected owners McnpSem.Locate computes by carrying the POINT into the auxiliary
frame (the converter moves the SURFACES the other way); TraceDeck.tla compares,
and checks the exact polynomial identity of surfaces carrying a TR number.
Part B (matrix completion): rational rotation matrices with 9/6/5/3 supplied
entries go through the repo's normalize_transform(); TLC checks with the
predicate GenTr!IsCompletion that the result is a proper rotation reproducing
every supplied entry.
"""
import json
import random
import sys
from fractions import Fraction

from .. import adeck, conv, core, deckrun, tlc

KINDS = {'spurious', 'unowned', 'multi', 'wrongid', 'wrongprov', 'locus', 'crash'}


def build_deck(r):
    card, tr, ca, sp = r['card'], r['tr'], r['carrier'], r['spell']
    fk = r.get('facet', 0)
    trc = {'n': 7, 'o': tr['o'], 'm': tr['m'], 'spell': sp}
    body = {'o': tr['o'], 'm': tr['m']}
    if ca == 'surftr':
        return {'surfs': [dict(card, n=1, tr=7)], 'trs': [trc],
                'cells': [{'n': 1, 'geom': ['S', -1, fk]}, {'n': 2, 'geom': ['S', 1, fk]}]}
    if ca == 'trclnum':
        return {'surfs': [dict(card, n=1)], 'trs': [trc],
                'cells': [{'n': 1, 'geom': ['S', -1, fk], 'hastrcl': True, 'trcl': body, 'trclnum': 7},
                          {'n': 2, 'geom': ['C', 1]}]}
    if ca in ('trclinline', 'trclstar'):
        return {'surfs': [dict(card, n=1)], 'trs': [],
                'cells': [{'n': 1, 'geom': ['S', -1, fk], 'hastrcl': True, 'trcl': body,
                           'trclspell': sp if ca == 'trclstar' and sp == 'star3' else ('star' if ca == 'trclstar' else sp)},
                          {'n': 2, 'geom': ['C', 1]}]}
    if ca == 'implicitdense':
        # explicit surfaces 1 (a far plane), 2 (the sample), 3000 (outer sphere); cell 3 = "-1 -2" carries the TRCL;
        # the probe cells refer to the implicit surface 3002 = surface 2 moved by the TRCL of cell 3, the very
        # number the TRCL pass would allocate first if the free surface key were taken before the implicit pass
        return {'surfs': [{'n': 1, 'k': 'pz', 'p': [40]}, dict(card, n=2), {'n': 3000, 'k': 'so', 'p': [30]}],
                'trs': [trc],
                'cells': [{'n': 1, 'geom': ['*', ['S', -3002, fk], ['S', -3000, 0]]},
                          {'n': 2, 'geom': ['*', ['S', 3002, fk], ['S', -3000, 0]]},
                          {'n': 4, 'geom': ['S', 3000, 0], 'imp': 0},
                          {'n': 3, 'geom': ['*', ['S', -1, 0], ['S', -2, 0]], 'u': 5, 'hastrcl': True, 'trcl': body,
                           'trclnum': 7}]}
    cells = [{'n': 1, 'geom': ['S', -3001, fk]},
             {'n': 2, 'geom': ['S', 3001, fk] if ca == 'implicit' else ['C', 1]},
             {'n': 3, 'geom': ['S', -1, 0], 'u': 5, 'hastrcl': True, 'trcl': body, 'trclnum': 7}]
    return {'surfs': [dict(card, n=1)], 'trs': [trc], 'cells': cells}


# ---------------------------------------------------------------------------
# part B: matrix completion

ROT = [  # rational proper rotations: (numerators row-major, denominator)
    ([1, 2, 2, 2, 1, -2, -2, 2, -1], 3), ([3, 4, 0, -4, 3, 0, 0, 0, 5], 5),
    ([2, 3, 6, 3, -6, 2, 6, 2, -3], 7), ([2, -1, 2, 2, 2, -1, -1, 2, 2], 3),
    ([0, 3, 4, 5, 0, 0, 0, 4, -3], 5), ([1, 4, 8, 4, 7, -4, -8, 4, -1], 9),
    ([6, 2, 3, -3, 6, 2, -2, -3, 6], 7), ([0, 1, 0, 0, 0, 1, 1, 0, 0], 1), ([1, 0, 0, 0, 0, -1, 0, 1, 0], 1),
]


def det3(m):
    return (m[0] * (m[4] * m[8] - m[5] * m[7]) - m[1] * (m[3] * m[8] - m[5] * m[6])
            + m[2] * (m[3] * m[7] - m[4] * m[6]))


def given_patterns():
    pats = [('9', [1] * 9)]
    for keep in ((0, 1), (0, 2), (1, 2)):
        pats.append(('6rows%d%d' % keep, [1 if r in keep else 0 for r in range(3) for c in range(3)]))
        pats.append(('6cols%d%d' % keep, [1 if c in keep else 0 for r in range(3) for c in range(3)]))
    for ri in range(3):
        for ci in range(3):
            pats.append(('5r%dc%d' % (ri, ci), [1 if (r == ri or c == ci) else 0 for r in range(3) for c in range(3)]))
    for ri in range(3):
        pats.append(('3row%d' % ri, [1 if r == ri else 0 for r in range(3) for c in range(3)]))
        pats.append(('3col%d' % ri, [1 if c == ri else 0 for r in range(3) for c in range(3)]))
    return pats


def run_matrix(job):
    conv._setup()
    from t4_geom_convert.Kernel.Transformation.Transformation import normalize_transform
    import warnings
    tid, nums, den, pat, name = job
    ent = [nums[i] / den if pat[i] else None for i in range(9)]
    rec = {'tid': tid, 'result': 'ok', 'M': [0] * 9, 'den': 1, 'err': None, 'Ms': [0] * 9}
    try:
        with warnings.catch_warnings():
            warnings.simplefilter('ignore')
            out = normalize_transform([1.0, 2.0, 3.0] + ent)
        mat = out[3:12]
        rec['Ms'] = [int(round(float(v) * 10000)) for v in mat]
        # rationalise with the denominator of the instance (entries of a rational rotation completed
        # from rational data are rational with denominator dividing den^2)
        D = den * den
        M = []
        for v in mat:
            fr = Fraction(float(v) * D).limit_denominator(1)
            if abs(float(v) * D - fr.numerator) > 1e-6:
                M = None
                break
            M.append(int(fr.numerator))
        if M is None or list(out[:3]) != [1.0, 2.0, 3.0]:
            rec['result'] = 'irrational'
        else:
            rec['M'], rec['den'] = M, D
    except Exception as exc:   # pylint: disable=broad-except
        rec['result'] = 'error'
        rec['err'] = conv.classify_exception(exc)
    return rec


def part_b(chk, thorough, rng):
    jobs, meta = [], {}
    tid = 0
    for nums, den in ROT:
        assert det3(nums) == den ** 3
        for name, pat in given_patterns():
            if name.startswith('5') and den == 1:
                continue          # one row + one column of a signed permutation does not fix the rest
            tid += 1
            jobs.append((tid, nums, den, pat, name))
            meta[tid] = {'matrix': nums, 'den': den, 'given': name}
    results = [run_matrix(j) for j in jobs]
    traces = []
    for j, r in zip(jobs, results):
        _, nums, den, pat, name = j
        scale = den          # given numerators over den*den
        traces.append({'tid': r['tid'], 'result': r['result'], 'M': r['M'], 'den': r['den'],
                       'given': [[pat[i], nums[i] * scale] for i in range(9)],
                       'Ms': r['Ms'], 'gs': [[pat[i], int(round(nums[i] * 10000 / den))] for i in range(9)],
                       'unique': not name.startswith('3')})
    sd = tlc.scratch_dir('c04m')
    core.write_blocks(sd, traces)
    import shutil
    try:
        val = tlc.run('TraceMatrix', 'INIT Init\nNEXT Next\nCHECK_DEADLOCK FALSE\n', env={'TRACE_DIR': sd}, workers=8)
    finally:
        shutil.rmtree(sd, ignore_errors=True)
    chk.add_tlc(val)
    nval = 0
    for b in core.collect_blocks(val):
        nval += b['n']
        for tid_, verdict in b['bad']:
            r = next(x for x in results if x['tid'] == tid_)
            m = meta[tid_]
            sig = {'clause': 'matrix:' + verdict, 'given': m['given'][:1] + ''.join(ch for ch in m['given'][1:] if not ch.isdigit()),
                   'pattern': m['given'], 'errtype': r['err']['type'] if r['err'] else None}
            chk.violation(sig, dict(m, completed=r['M'], completed_den=r['den'], error=r['err']))
    if nval != len(traces):
        chk.machinery('TraceMatrix validated %d of %d' % (nval, len(traces)))
    return nval


def main():
    from .. import replay
    replay.maybe_replay('C04')
    chk = core.Check('C04')
    thorough = chk.tier == 'thorough'
    rng = random.Random(chk.seed)
    core.lap('start')
    try:
        cfg = 'INIT Init\nNEXT Next\nCONSTANTS Lvl = %d\nCHECK_DEADLOCK FALSE\n' % (2 if thorough else 1)
        res = tlc.run('GenTr', cfg, workers=16, timeout=1500)
        chk.add_tlc(res)
        recs = [r for r in tlc.printed_json(res['stdout']) if isinstance(r, dict) and 'carrier' in r]
    except tlc.TLCFailure as exc:
        chk.machinery(str(exc))
        return chk.finish()
    core.lap('generator')
    uniq = {json.dumps(r, sort_keys=True): r for r in recs}
    recs = [uniq[k] for k in sorted(uniq)]
    ntotal = len(recs)
    want = 12000 if thorough else 1600
    if len(recs) > want:
        # the rare spellings (a displacement alone, plain or starred) are kept in numbers, the rest is sampled
        rare = [r for r in recs if r['spell'] in ('3', 'star3')]
        rest = [r for r in recs if r['spell'] not in ('3', 'star3')]
        rare = rng.sample(rare, min(len(rare), want // 8))
        recs = rare + rng.sample(rest, min(len(rest), want - len(rare)))
    allpts = adeck.grid_points(rng, 10 ** 6, -11, 11)
    jobs, nd, meta = [], {}, {}
    for i, r in enumerate(recs):
        d = adeck.normalise(build_deck(r))
        if i % 2 and (r['spell'] == 'star' or r['carrier'] == 'trclstar'):
            d['starwide'] = True      # the same angles written beyond 180 degrees (270, -90, 360 - a)
        d['pts'] = rng.sample(allpts, 140)
        nd[i + 1] = d
        meta[i + 1] = r
        jobs.append({'tid': i + 1, 'deck': d, 'opts': []})
    # covariance: the same carriers with a GENERAL rotation phi (irrational entries).  The converter sees the
    # deck with the transformation phi, TLC the deck without any transformation and the probe points in the
    # auxiliary frame; the sense rows are evaluated at phi(points).
    base = len(jobs)
    gen_recs = [r for r in recs if r['carrier'] in ('surftr', 'trclnum', 'trclinline', 'trclstar')
                and r['spell'] in ('12', '13', 'rows12', 'rows13', 'rows23', 'cols12', 'cols13', 'cols23', 'star')]
    rng.shuffle(gen_recs)
    for i, r in enumerate(gen_recs[:(3000 if thorough else 400)]):
        o, R = adeck.PHIS[i % len(adeck.PHIS)]
        phi_tr = {'o': list(o), 'm': [R[rr][cc] for cc in range(3) for rr in range(3)]}
        moved = adeck.normalise(build_deck(dict(r, tr=phi_tr)))
        if i % 2 and (r['spell'] == 'star' or r['carrier'] == 'trclstar'):
            moved['starwide'] = True      # general angles written beyond 180 degrees (360 - a, -a)
        ident = adeck.normalise(build_deck(dict(r, tr={'o': [0, 0, 0], 'm': adeck.IDM})))
        for c in ident['cells']:
            c['hastrcl'] = False
        for sf in ident['surfs']:
            sf['tr'] = 0
        ident['trs'] = []
        ident['pts'] = rng.sample(allpts, 140)
        tid = base + i + 1
        nd[tid] = ident
        meta[tid] = dict(r, general=True)
        jobs.append({'tid': tid, 'deck': ident, 'opts': [], 'text': adeck.concretise(moved),
                     'real_points': adeck.moved_points(ident['pts'], (o, R))})
    records = conv.run_batch(deckrun.run_deck, jobs, chunksize=16)
    core.lap('converter x%d' % len(jobs))
    good = [r for r in records if 'machinery_error' not in r]
    for r in records:
        if 'machinery_error' in r:
            chk.machinery(r['machinery_error'])
    try:
        verdicts = deckrun.validate(chk, good, nd, 'owner,witness')    # (no witness rows are recorded for the moved decks)
        nmat = part_b(chk, thorough, rng)
    except tlc.TLCFailure as exc:
        chk.machinery(str(exc))
        return chk.finish()
    core.lap('TLC validation')
    byid = {r['tid']: r for r in good}
    chk.cov['traces_validated_against_impl'] = len(verdicts) + nmat
    chk.cov['evaluations'] = len(verdicts) + nmat
    nt = 0
    for tid, v in sorted(verdicts.items()):
        r, rec = meta[tid], byid[tid]
        ident = r['tr']['m'] == adeck.IDM and r['tr']['o'] == [0, 0, 0] and not r.get('general')
        if v['nowners'] >= 2 and not ident:
            nt += 1
        for kind, pt in v['bad']:
            if kind not in KINDS:
                if kind == 'baddeck':
                    chk.machinery('baddeck %r' % (r,))
                continue
            err = rec['err']
            card = r['card']
            onesheet = (card['k'] in ('kx', 'ky', 'kz') and len(card['p']) == 3) or \
                       (card['k'] in ('k/x', 'k/y', 'k/z') and len(card['p']) == 5) or \
                       (card['k'] in 'xyz' and len(card['p']) == 4)
            sig = {'clause': kind, 'mnemonic': card['k'], 'carrier': r['carrier'], 'spell': r['spell'],
                   'general_rotation': bool(r.get('general')),
                   'onesheet': bool(onesheet),
                   'errtype': err['type'] if err else None, 'where': err['where'] if err else None}
            chk.violation(sig, {'text': rec['text'], 'record': r, 'error': err, 'deck': nd[tid],
                                'clauses': 'owner,witness',
                                'point2': nd[tid]['pts'][pt - 1] if pt and kind != 'locus' else None})
    chk.cov['distinct_nontrivial'] = nt
    for tid in sorted(byid)[:1] + sorted(byid)[len(byid) // 2:len(byid) // 2 + 2]:
        chk.sample({'record': meta[tid], 'deck_text': byid[tid]['text'], 'verdict': verdicts.get(tid)})
    # one universe placed twice with different GENERAL rotations (exact twin deck with translations, points mapped)
    from . import turned
    turned.run(chk, thorough, chk.seed)
    chk.extra['rule'] = ('distinct = distinct (surface, rotation, displacement, carrier, spelling) records; non-trivial = '
                         'the motion is not the identity and both probe cells own probe points')
    chk.extra['generated_records'] = ntotal
    chk.extra['matrix_completion_instances'] = nmat
    chk.extra['exhaustive'] = False
    chk.assumptions += ['geometry part: the 24 proper signed-permutation rotations with integer displacements (exact); general rotations only in the matrix-completion part',
                        'matrix completion: 9 rational rotations x 22 patterns of supplied entries; for 3 supplied entries only the completion predicate is checked (MCNP choice arbitrary)',
                        'DESIGN.md section 4 conventions 3 and 4']
    return chk.finish()


if __name__ == '__main__':
    sys.exit(main())
