"""C06 - rectangular lattices: element position, index order and fill array.

GenLat.tla builds LAT=1 unit cells from their base vectors (1-, 2-, 3-D,
orthogonal and skew, any orientation, either plane of a pair listed first),
index ranges (negative, degenerate), fill arrays over {0, own universe, u2, u3}
or FILL=n with --lattice, lattice and container transformations; TLC checks the
declarative base-vector conditions on every deck.  TraceDeck.tla locates each
probe point through the element lookup of McnpSem.Locate and compares owner,
provenance (consistent element keys) and composition with the written file.
"""
import json
import random
import sys

from .. import adeck, core, pipeline, tlc
from . import common_univ

KINDS = {'spurious', 'unowned', 'multi', 'wrongid', 'wrongprov', 'crash', 'lattice_keys_inconsistent',
         'void_not_m0', 'composition_undefined', 'wrong_material', 'wrong_density'}


def gen(chk, module, thorough, seed, nquick, nthorough, depth=60):
    decks = []
    for lvl in (1, 2):
        cfg = 'INIT Init\nNEXT Next\nCONSTANTS Lvl = %d\nINVARIANT LatticeVecsOK\nCHECK_DEADLOCK FALSE\n' % lvl
        n = (nthorough if thorough else nquick) // 2
        res = tlc.run(module, cfg, workers=16, simulate=max(1, n // 16), depth=depth, seed=seed + lvl, timeout=1500)
        chk.add_tlc(res)
        if res['violation']:
            chk.violation({'clause': 'design:' + res['violation']}, {'tlc': tlc._tail(res['stdout'], 30)})
        decks += [d for d in tlc.printed_json(res['stdout']) if isinstance(d, dict) and 'cells' in d]
    uniq = {json.dumps(d, sort_keys=True): d for d in decks}
    return [uniq[k] for k in sorted(uniq)]


def lat_features(deck):
    f = set()
    for c in deck['cells']:
        if not c['lat']:
            continue
        f.add('dim%d' % len(c['lranges']))
        if c['hasftr']:
            f.add('lat_filltr_rot' if c['ftr']['m'] != adeck.IDM else 'lat_filltr_transl')
        if c.get('latopt'):
            f.add('latopt')
        if any(a < 0 for a, b in c['lranges']):
            f.add('negidx')
        if len(set(c['lunivs'])) > 1:
            f.add('hetero')
        if c['u'] in c['lunivs']:
            f.add('own')
        vec = c['lvecs']
        if any(sum(1 for x in v if x) > 1 for v in vec):
            f.add('skew')
    if any(c['fill'] and not c['u'] and c['hasftr'] for c in deck['cells']):
        f.add('container_tr')
    return sorted(f)


def regular_hexagons(chk, decks, thorough):
    """C07 'regular hexagons in any orientation' by affine covariance: GenHex decks whose hexagon is an affine
    image of a regular one (hex_regular_map), rotations replaced by the identity (an exact deck of its own), the
    whole world mapped by x' = Q A x + o with A making the hexagon regular and Q a general rotation.  The
    converter sees irrational plane normals and a GQ container; TLC keeps the exact integer deck."""
    import random
    import numpy as np
    from .. import conv, deckrun
    rng = random.Random(chk.seed + 7)
    jobs, nd = [], {}
    for i, d in enumerate(decks):
        d = adeck.translations_only(adeck.normalise(d))
        adeck.simple_materials(d)
        A = adeck.hex_regular_map(d)
        if A is None:
            continue
        o, R = adeck.PHIS[i % len(adeck.PHIS)]
        A2 = (np.array(R) @ np.array(A)).tolist()
        mv = adeck.affine_world(d, A2, o)
        if mv is None:
            continue
        d['pts'] = adeck.grid_points(rng, 130, -11, 11)
        tid = len(jobs) + 1
        nd[tid] = d
        jobs.append({'tid': tid, 'deck': d, 'opts': adeck.lattice_opts(d), 'text': adeck.concretise(mv),
                     'real_points': adeck.affine_points(d['pts'], A2, o)})
        if len(jobs) >= (3000 if thorough else 300):
            break
    records = conv.run_batch(deckrun.run_deck, jobs, chunksize=8)
    good = []
    for rec in records:
        if 'machinery_error' in rec:
            chk.machinery(rec['machinery_error'])
        else:
            good.append(rec)
    try:
        verdicts = deckrun.validate(chk, good, nd, 'owner')
    except tlc.TLCFailure as exc:
        chk.machinery(str(exc))
        return
    byid = {r['tid']: r for r in good}
    nt = 0
    for tid, v in sorted(verdicts.items()):
        rec = byid[tid]
        if v['nowners'] >= 3:
            nt += 1
        for kind, k in v['bad']:
            if kind == 'baddeck':
                chk.machinery('regular-hexagon deck is not a partition: %s' % rec['text'])
                continue
            if kind not in KINDS:
                continue
            err = rec['err']
            sig = {'clause': kind, 'errtype': err['type'] if err else None, 'where': err['where'] if err else None,
                   'features': 'regular_hexagon', 'moved': True}
            chk.violation(sig, {'text': rec['text'], 'opts': rec['opts'], 'error': err, 'deck': nd[tid],
                                'clauses': 'owner', 'point2': nd[tid]['pts'][k - 1] if k else None,
                                'note': 'replay re-runs the exact integer deck, not the affine image'})
    chk.cov['traces_validated_against_impl'] += len(verdicts)
    chk.cov['evaluations'] += len(verdicts)
    chk.cov['distinct_nontrivial'] += nt
    chk.extra['regular_hexagon_decks'] = len(verdicts)
    chk.assumptions.append('regular hexagons: affine image of the integer deck (irrational normals, general '
                           'orientation), rotations of the deck replaced by the identity; covariance of the '
                           'MCNP meaning under affine maps holds for plane-bounded cells and translations')


def main(prop='C06', module='GenLat'):
    from .. import replay
    replay.maybe_replay(prop)
    chk = core.Check(prop)
    thorough = chk.tier == 'thorough'
    core.lap('start')
    try:
        decks = gen(chk, module, thorough, chk.seed, 900, 9000)
    except tlc.TLCFailure as exc:
        chk.machinery(str(exc))
        return chk.finish()
    core.lap('generator')
    if not decks:
        chk.machinery('no deck generated')
        return chk.finish()
    recs, verdicts, nd, meta = common_univ.run(
        chk, decks, 'owner,compo', chk.seed,
        lambda d, r: [adeck.lattice_opts(d) + [f for f in common_univ.FLAGS if r.random() < 0.3]],
        npts=130, decorate=lambda d, r: adeck.simple_materials(d), lo=-11, hi=11, moved_every=3)
    chk.cov['traces_validated_against_impl'] = len(verdicts)
    chk.cov['evaluations'] = len(verdicts)
    nt = 0
    for tid, v in sorted(verdicts.items()):
        deck, rec = nd[tid], recs[tid]
        feats = lat_features(deck)
        if v['nowners'] >= 3 and ('negidx' in feats or 'hetero' in feats):
            nt += 1
        for kind, k in v['bad']:
            if kind == 'baddeck':
                chk.machinery('generator produced a deck that is not a partition: %s' % rec['text'])
                continue
            if kind not in KINDS:
                continue
            err = rec['err']
            sig = {'clause': kind, 'errtype': err['type'] if err else None, 'where': err['where'] if err else None,
                   'features': '+'.join(feats), 'moved': bool(meta[tid].get('moved'))}
            chk.violation(sig, {'text': rec['text'], 'opts': meta[tid]['opts'], 'error': err, 'deck': deck,
                                'clauses': 'owner,compo', 'point2': deck['pts'][k - 1] if k else None})
    chk.cov['distinct_nontrivial'] = nt
    if module == 'GenHex':
        core.lap('final-file validation')
        regular_hexagons(chk, decks, thorough)
        core.lap('regular hexagons (affine covariance)')
    # per-pass contracts (Pipeline.tla) on a subset: lattice development, fill, inlining, conversion, pruning
    sub = [nd[t] for t in sorted(nd)][::max(1, len(nd) // (600 if thorough else 150))]
    pipeline.check_decks(chk, sub, lambda d, r: [adeck.lattice_opts(d) + [f for f in common_univ.FLAGS if r.random() < 0.3]],
                         chk.seed)
    chk.cov['traces_validated_against_impl'] += chk.extra.get('pipeline_traces', 0)
    ids = sorted(recs)
    for tid in ids[:1] + ids[len(ids) // 2:len(ids) // 2 + 2]:
        chk.sample({'deck_text': recs[tid]['text'], 'opts': meta[tid]['opts'], 'verdict': verdicts.get(tid)})
    chk.extra['rule'] = ('distinct = distinct (abstract deck, options); non-trivial = at least three different owners '
                         '(elements / filler cells) own probe points and an index is negative or the fill array is heterogeneous')
    chk.extra['exhaustive'] = False
    chk.assumptions += ['DESIGN.md section 4 convention 5 (positive index across the first-listed surface; first index fastest)',
                        'unit cells with integer base vectors; lattice placed by signed-permutation motions; every third deck also with the whole world moved by a general rigid motion (any orientation: float plane normals, float TR entries)']
    return chk.finish()


if __name__ == '__main__':
    sys.exit(main())
