"""C06 - rectangular lattices: element position, index order and fill array.

GenLat.tla builds LAT=1 unit cells from their base vectors (1-, 2-, 3-D,
orthogonal and skew, any orientation, either plane of a pair listed first),
index ranges (negative, degenerate), fill arrays over {0, own universe, u2, u3}
or FILL=n with --lattice, lattice and container transformations; TLC checks the
declarative base-vector conditions on every deck.  TraceDeck.tla locates each
probe point through the element lookup of McnpSem.Locate and compares owner,
provenance (consistent element keys) and composition with the written file.
"""
import json
import random
import sys

from .. import adeck, core, pipeline, tlc
from . import common_univ

KINDS = {'spurious', 'unowned', 'multi', 'wrongid', 'wrongprov', 'crash', 'lattice_keys_inconsistent',
         'void_not_m0', 'composition_undefined', 'wrong_material', 'wrong_density'}


def gen(chk, module, thorough, seed, nquick, nthorough, depth=60):
    decks = []
    for lvl in (1, 2):
        cfg = 'INIT Init\nNEXT Next\nCONSTANTS Lvl = %d\nINVARIANT LatticeVecsOK\nCHECK_DEADLOCK FALSE\n' % lvl
        n = (nthorough if thorough else nquick) // 2
        res = tlc.run(module, cfg, workers=16, simulate=max(1, n // 16), depth=depth, seed=seed + lvl, timeout=1500)
        chk.add_tlc(res)
        if res['violation']:
            chk.violation({'clause': 'design:' + res['violation']}, {'tlc': tlc._tail(res['stdout'], 30)})
        decks += [d for d in tlc.printed_json(res['stdout']) if isinstance(d, dict) and 'cells' in d]
    uniq = {json.dumps(d, sort_keys=True): d for d in decks}
    return [uniq[k] for k in sorted(uniq)]


def lat_features(deck):
    f = set()
    for c in deck['cells']:
        if not c['lat']:
            continue
        f.add('dim%d' % len(c['lranges']))
        if c['hasftr']:
            f.add('lat_filltr_rot' if c['ftr']['m'] != adeck.IDM else 'lat_filltr_transl')
        if c.get('latopt'):
            f.add('latopt')
        if any(a < 0 for a, b in c['lranges']):
            f.add('negidx')
        if len(set(c['lunivs'])) > 1:
            f.add('hetero')
        if c['u'] in c['lunivs']:
            f.add('own')
        vec = c['lvecs']
        if any(sum(1 for x in v if x) > 1 for v in vec):
            f.add('skew')
    if any(c['fill'] and not c['u'] and c['hasftr'] for c in deck['cells']):
        f.add('container_tr')
    return sorted(f)


def regular_hexagons(chk, decks, thorough):
    """C07 'regular hexagons in any orientation' by affine covariance: GenHex decks whose hexagon is an affine
    image of a regular one (hex_regular_map), rotations replaced by the identity (an exact deck of its own), the
    whole world mapped by x' = Q A x + o with A making the hexagon regular and Q a general rotation.  The
    converter sees irrational plane normals and a GQ container; TLC keeps the exact integer deck."""
    import random
    import numpy as np
    from .. import conv, deckrun
    rng = random.Random(chk.seed + 7)
    jobs, nd = [], {}
    for i, d in enumerate(decks):
        d = adeck.translations_only(adeck.normalise(d))
        adeck.simple_materials(d)
        A = adeck.hex_regular_map(d)
        if A is None:
            continue
        o, R = adeck.PHIS[i % len(adeck.PHIS)]
        A2 = (np.array(R) @ np.array(A)).tolist()
        mv = adeck.affine_world(d, A2, o)
        if mv is None:
            continue
        d['pts'] = adeck.grid_points(rng, 130, -11, 11)
        tid = len(jobs) + 1
        nd[tid] = d
        jobs.append({'tid': tid, 'deck': d, 'opts': adeck.lattice_opts(d), 'text': adeck.concretise(mv),
                     'real_points': adeck.affine_points(d['pts'], A2, o)})
        if len(jobs) >= (3000 if thorough else 300):
            break
    records = conv.run_batch(deckrun.run_deck, jobs, chunksize=8)
    good = []
    for rec in records:
        if 'machinery_error' in rec:
            chk.machinery(rec['machinery_error'])
        else:
            good.append(rec)
    try:
        verdicts = deckrun.validate(chk, good, nd, 'owner')
    except tlc.TLCFailure as exc:
        chk.machinery(str(exc))
        return
    byid = {r['tid']: r for r in good}
    nt = 0
    for tid, v in sorted(verdicts.items()):
        rec = byid[tid]
        if v['nowners'] >= 3:
            nt += 1
        for kind, k in v['bad']:
            if kind == 'baddeck':
                chk.machinery('regular-hexagon deck is not a partition: %s' % rec['text'])
                continue
            if kind not in KINDS:
                continue
            err = rec['err']
            sig = {'clause': kind, 'errtype': err['type'] if err else None, 'where': err['where'] if err else None,
                   'features': 'regular_hexagon', 'moved': True}
            chk.violation(sig, {'text': rec['text'], 'opts': rec['opts'], 'error': err, 'deck': nd[tid],
                                'clauses': 'owner', 'point2': nd[tid]['pts'][k - 1] if k else None,
                                'note': 'replay re-runs the exact integer deck, not the affine image'})
    chk.cov['traces_validated_against_impl'] += len(verdicts)
    chk.cov['evaluations'] += len(verdicts)
    chk.cov['distinct_nontrivial'] += nt
    chk.extra['regular_hexagon_decks'] = len(verdicts)
    chk.assumptions.append('regular hexagons: affine image of the integer deck (irrational normals, general '
                           'orientation), rotations of the deck replaced by the identity; covariance of the '
                           'MCNP meaning under affine maps holds for plane-bounded cells and translations')


def nested_lattice_decks(seed, n):
    """Lattices placed in lattice elements: an outer LAT=1 cell (universe 1) whose elements are filled with universe 2,
    itself one LAT=1 cell of half the pitch (2 x 2 inner elements per outer element) filled with three plain
    universes, or with a plain universe, or with nothing; the container optionally carries a rotating FILL
    transformation.  Built here (not by GenLat.tla); judged by the same TLA+ meaning (McnpSem.Locate)."""
    rng = random.Random(seed)

    def S(k):
        return ['S', k, 0]
    decks = []
    for _trial in range(n):
        w = rng.choice([1, 2])          # inner pitch 2w; outer pitch = 2*inner pitch (2 inner elements per outer element)
        nin = 2
        W = w * nin                     # outer half-width
        inner_fill = [rng.choice([3, 4, 5]) for _ in range(nin * nin)]
        outer_rng = [[rng.choice([-1, 0]), rng.choice([0, 1])], [0, rng.choice([0, 1])]]
        nout = (outer_rng[0][1] - outer_rng[0][0] + 1) * (outer_rng[1][1] - outer_rng[1][0] + 1)
        outer_fill = [rng.choice([2, 2, 6, 0]) for _ in range(nout)]
        ftr = rng.random() < 0.4
        cells = [
            {'n': 1, 'geom': S(-1), 'fill': 1, 'hasftr': ftr, 'ftr': {'o': [1, -1, 0], 'm': [0, 1, 0, -1, 0, 0, 0, 0, 1]}, 'ftrspell': '12'},
            {'n': 2, 'geom': S(1), 'imp': 0},
            # outer lattice in universe 1: unit cell [-W,W]^2, elements filled with universe 2 (inner lattice) or 6 (plain) or 0
            {'n': 10, 'geom': ['*', S(-11), S(12), S(-13), S(14)], 'u': 1, 'lat': 1, 'lranges': outer_rng, 'lunivs': outer_fill,
             'lvecs': [[4 * W, 0, 0], [0, 4 * W, 0]], 'mat': 1, 'rhotxt': '-1.0', 'rho': 1},
            # inner lattice in universe 2: unit cell [-W, -W+2w]^2 (so that 2x2 inner elements tile the outer element)
            {'n': 20, 'geom': ['*', S(-21), S(22), S(-23), S(24)], 'u': 2, 'lat': 1, 'lranges': [[0, nin - 1], [0, nin - 1]],
             'lunivs': inner_fill, 'lvecs': [[4 * w, 0, 0], [0, 4 * w, 0]], 'mat': 2, 'rhotxt': '-1.0', 'rho': 1},
            {'n': 31, 'geom': S(-31), 'u': 3, 'mat': 1, 'rhotxt': '-1.0', 'rho': 1}, {'n': 32, 'geom': S(31), 'u': 3},
            {'n': 41, 'geom': S(-32), 'u': 4, 'mat': 2, 'rhotxt': '-1.0', 'rho': 1}, {'n': 42, 'geom': S(32), 'u': 4},
            {'n': 51, 'geom': S(-33), 'u': 5}, {'n': 52, 'geom': S(33), 'u': 5, 'mat': 1, 'rhotxt': '-1.0', 'rho': 1},
            {'n': 61, 'geom': S(-31), 'u': 6, 'mat': 2, 'rhotxt': '-1.0', 'rho': 1}, {'n': 62, 'geom': S(31), 'u': 6},
        ]
        surfs = [{'n': 1, 'k': 'so', 'p': [9]},
                 {'n': 11, 'k': 'px', 'p': [W]}, {'n': 12, 'k': 'px', 'p': [-W]}, {'n': 13, 'k': 'py', 'p': [W]}, {'n': 14, 'k': 'py', 'p': [-W]},
                 {'n': 21, 'k': 'px', 'p': [-W + 2 * w]}, {'n': 22, 'k': 'px', 'p': [-W]}, {'n': 23, 'k': 'py', 'p': [-W + 2 * w]}, {'n': 24, 'k': 'py', 'p': [-W]},
                 {'n': 31, 'k': 'pz', 'p': [0]}, {'n': 32, 'k': 'pz', 'p': [1]}, {'n': 33, 'k': 'pz', 'p': [-2]}]
        if rng.random() < 0.5:
            # the unit cells written with the facets of one RPP each instead of four planes (facet 1 = xmax, 2 = xmin,
            # 3 = ymax, 4 = ymin; '-b.k' is the side of the facet towards the inside of the body)
            surfs += [{'n': 15, 'k': 'rpp', 'p': [-W, W, -W, W, -70, 70]},
                      {'n': 25, 'k': 'rpp', 'p': [-W, -W + 2 * w, -W, -W + 2 * w, -70, 70]}]
            cells[2]['geom'] = ['*', ['S', -15, 1], ['S', -15, 2], ['S', -15, 3], ['S', -15, 4]]
            cells[3]['geom'] = ['*', ['S', -25, 1], ['S', -25, 2], ['S', -25, 3], ['S', -25, 4]]
        d = adeck.normalise({'cells': cells, 'surfs': surfs})
        d['rhovalues'] = [-1.0]
        decks.append(d)
    return decks


def like_lattice_decks(seed, n):
    """A FILL=n lattice cell and a second lattice written LIKE n BUT U=m [FILL=k]: two lattices with the same unit
    cell in two universes, each with its OWN --lattice ranges (and filling universe)."""
    rng = random.Random(seed)
    out = []
    S = lambda k: ['S', k, 0]
    for _ in range(n):
        w = rng.choice([1, 2])
        ndim = rng.choice([1, 2])

        def ranges():
            return [[rng.choice([-1, 0]), rng.choice([0, 1])], [rng.choice([-1, 0]), rng.choice([0, 1])]][:ndim]
        r1, r2 = ranges(), ranges()
        while r2 == r1:
            r2 = ranges()
        size = lambda r: (r[0][1] - r[0][0] + 1) * ((r[1][1] - r[1][0] + 1) if ndim == 2 else 1)
        geom = ['*', S(-11), S(12)] + ([S(-13), S(14)] if ndim == 2 else [])
        f2 = rng.choice([7, 8])
        base = {'geom': geom, 'lat': 1, 'lvecs': [[4 * w, 0, 0], [0, 4 * w, 0]][:ndim], 'latopt': True}
        but = ['u=3'] + (['fill=8'] if f2 == 8 else [])
        rng.shuffle(but)
        d = {'surfs': [{'n': 1, 'k': 'so', 'p': [7]}, {'n': 2, 'k': 'so', 'p': [12]},
                       {'n': 11, 'k': 'px', 'p': [w]}, {'n': 12, 'k': 'px', 'p': [-w]},
                       {'n': 13, 'k': 'py', 'p': [w]}, {'n': 14, 'k': 'py', 'p': [-w]},
                       {'n': 21, 'k': 'pz', 'p': [0]}, {'n': 22, 'k': 'p', 'p': [1, 1, 0, 0]}],
             'cells': [{'n': 1, 'geom': S(-1), 'fill': 1}, {'n': 2, 'geom': ['*', S(1), S(-2)], 'fill': 3},
                       {'n': 3, 'geom': S(2), 'imp': 0},
                       dict(base, n=10, u=1, fill=7, lranges=r1, lunivs=[7] * size(r1)),
                       dict(base, n=20, u=3, fill=f2, lranges=r2, lunivs=[f2] * size(r2), like=10, but=but),
                       {'n': 21, 'geom': S(-21), 'u': 7, 'mat': 1}, {'n': 22, 'geom': S(21), 'u': 7, 'mat': 2},
                       {'n': 31, 'geom': S(-22), 'u': 8, 'mat': 2}, {'n': 32, 'geom': S(22), 'u': 8, 'mat': 3}]}
        out.append(d)
    return out


def wide_range_decks(decks, seed, n):
    """Two-dimensional lattices with index ranges 0:11 0:10 (132 elements, two-digit indices in both directions), on
    the form FILL=n completed by --lattice; probe points in chosen far elements."""
    rng = random.Random(seed)
    out = []
    for d in decks:
        d = adeck.normalise(d)
        lat = [c for c in d['cells'] if c['lat']]
        if len(lat) != 1 or len(lat[0]['lranges']) != 2 or lat[0]['hasftr'] or lat[0]['hastrcl'] or lat[0].get('like'):
            continue
        if any(c['hasftr'] or c['hastrcl'] for c in d['cells']) or not any(c['u'] == 2 for c in d['cells']):
            continue
        c = lat[0]
        c.update(latopt=True, fill=2, lranges=[[0, 11], [0, 10]], lunivs=[2] * 132)
        for s in d['surfs']:
            if s['n'] == 1 and s['k'] == 'so':
                s['p'] = [90]
        base = [P for P in adeck.grid_points(rng, 400, -4, 4)]
        pts = []
        for (i, j) in [(1, 10), (11, 0), (0, 0), (11, 10), (10, 1), (5, 5), (0, 10), (11, 1)]:
            shift = [i * c['lvecs'][0][k] + j * c['lvecs'][1][k] for k in range(3)]
            pts += [[P[k] + shift[k] for k in range(3)] for P in rng.sample(base, 14)]
        d['pts'] = pts
        d['pts_fixed'] = True
        out.append(d)
        if len(out) >= n:
            break
    return out


def superfluous_lattice_option(chk, decks, thorough):
    """A --lattice option that names a lattice cell whose FILL array is on the card (ranges of the same total size,
    shifted or transposed): the deck says where the elements are, so the conversion either stays what it is or
    the option is refused with a diagnostic - the declared ranges are never replaced by the option's."""
    from .. import conv, deckrun
    rng = random.Random(chk.seed + 606)
    jobs, nd = [], {}
    for d in decks:
        d = adeck.normalise(d)
        lat = [c for c in d['cells'] if c['lat'] and c['lranges'] and not c.get('latopt')]
        if len(lat) != 1 or any(c.get('latopt') for c in d['cells']):
            continue
        c = lat[0]
        sizes = [b - a + 1 for a, b in c['lranges']]
        if len(sizes) >= 2 and sizes[0] != sizes[1] and rng.random() < 0.5:
            rngs = [c['lranges'][1], c['lranges'][0]] + list(c['lranges'][2:])         # transposed
        else:
            rngs = [[a + 1, b + 1] for a, b in c['lranges']]                            # shifted
        adeck.simple_materials(d)
        d['pts'] = adeck.grid_points(rng, 100, -11, 11)
        tid = len(jobs) + 1
        nd[tid] = d
        jobs.append({'tid': tid, 'deck': d, 'opts': ['--lattice', '%d,%s' % (c['n'], ','.join('%d:%d' % (a, b) for a, b in rngs))]})
        if len(jobs) >= (600 if thorough else 80):
            break
    if not jobs:
        return
    records = conv.run_batch(deckrun.run_deck, jobs, chunksize=8)
    good, nrefused = [], 0
    for r in records:
        if 'machinery_error' in r:
            chk.machinery(r['machinery_error'])
        elif r['result'] != 'ok':
            if r['err'] and r['err']['diag']:
                nrefused += 1
            else:
                chk.violation({'clause': 'crash', 'errtype': r['err']['type'] if r['err'] else None, 'where': r['err']['where'] if r['err'] else None,
                               'features': 'superfluous_lattice_option', 'moved': False},
                              {'text': r['text'], 'opts': r['opts'], 'error': r['err'], 'deck': nd[r['tid']], 'clauses': 'owner'})
        else:
            good.append(r)
    try:
        verdicts = deckrun.validate(chk, good, nd, 'owner') if good else {}
    except tlc.TLCFailure as exc:
        chk.machinery(str(exc))
        verdicts = {}
    byid = {r['tid']: r for r in good}
    for tid, v in sorted(verdicts.items()):
        for kind, k in v['bad']:
            if kind in KINDS:
                chk.violation({'clause': kind, 'errtype': None, 'where': None, 'features': 'superfluous_lattice_option', 'moved': False},
                              {'text': byid[tid]['text'], 'opts': byid[tid]['opts'], 'deck': nd[tid], 'clauses': 'owner',
                               'point2': nd[tid]['pts'][k - 1] if k else None})
    chk.cov['traces_validated_against_impl'] += len(verdicts)
    chk.extra['superfluous_lattice_option'] = {'run': len(jobs), 'refused_with_diagnostic': nrefused, 'converted': len(good)}


def element_transformation(chk, decks, thorough):
    """A transformation written after a FILL ARRAY belongs to the entry it follows (here the last one): it moves that
    lattice element only (McnpSem!ElemHasFtr).  The conversion either has exactly that meaning or is refused with a
    diagnostic - the transformation is never applied to every element."""
    from .. import conv, deckrun
    rng = random.Random(chk.seed + 707)
    TRS = [{'o': [1, 0, -1], 'm': list(adeck.IDM)}, {'o': [0, 1, 0], 'm': [0, 1, 0, -1, 0, 0, 0, 0, 1]},
           {'o': [0, 0, 0], 'm': [-1, 0, 0, 0, -1, 0, 0, 0, 1]}]
    jobs, nd = [], {}
    for d in decks:
        d = adeck.normalise(d)
        lat = [c for c in d['cells'] if c['lat']]
        if len(lat) != 1 or lat[0].get('latopt') or lat[0]['hasftr'] or not lat[0]['lranges'] or lat[0].get('like'):
            continue
        c = lat[0]
        if c['lunivs'][-1] in (0, c['u']) and rng.random() < 0.8:
            continue                      # mostly arrays whose last element holds another universe
        c['hasftr'], c['ftr'] = True, rng.choice(TRS)
        c['ftrspell'] = rng.choice(['12', 'star', 'num'] + (['3'] if c['ftr']['m'] == adeck.IDM else []))
        adeck.simple_materials(d)
        d['pts'] = adeck.grid_points(rng, 100, -11, 11)
        tid = len(jobs) + 1
        nd[tid] = d
        jobs.append({'tid': tid, 'deck': d, 'opts': adeck.lattice_opts(d)})
        if len(jobs) >= (400 if thorough else 60):
            break
    if not jobs:
        return
    records = conv.run_batch(deckrun.run_deck, jobs, chunksize=8)
    good, nrefused = [], 0
    for r in records:
        if 'machinery_error' in r:
            chk.machinery(r['machinery_error'])
        elif r['result'] != 'ok':
            if r['err'] and r['err']['diag']:
                nrefused += 1
            else:
                chk.violation({'clause': 'crash', 'errtype': r['err']['type'] if r['err'] else None, 'where': r['err']['where'] if r['err'] else None,
                               'features': 'element_transformation', 'moved': False},
                              {'text': r['text'], 'opts': r['opts'], 'error': r['err'], 'deck': nd[r['tid']], 'clauses': 'owner'})
        else:
            good.append(r)
    try:
        verdicts = deckrun.validate(chk, good, nd, 'owner') if good else {}
    except tlc.TLCFailure as exc:
        chk.machinery(str(exc))
        verdicts = {}
    byid = {r['tid']: r for r in good}
    for tid, v in sorted(verdicts.items()):
        for kind, k in v['bad']:
            if kind in KINDS:
                chk.violation({'clause': kind, 'errtype': None, 'where': None, 'features': 'element_transformation', 'moved': False},
                              {'text': byid[tid]['text'], 'opts': byid[tid]['opts'], 'deck': nd[tid], 'clauses': 'owner',
                               'point2': nd[tid]['pts'][k - 1] if k else None})
    chk.cov['traces_validated_against_impl'] += len(verdicts)
    chk.extra['element_transformation'] = {'run': len(jobs), 'refused_with_diagnostic': nrefused, 'converted': len(good)}


def _leaves(t):
    if t[0] == 'S':
        return [t[1]]
    if t[0] in ('*', ':'):
        return [x for k in t[1:] for x in _leaves(k)]
    return []


def main(prop='C06', module='GenLat'):
    from .. import replay
    replay.maybe_replay(prop)
    chk = core.Check(prop)
    thorough = chk.tier == 'thorough'
    core.lap('start')
    try:
        decks = gen(chk, module, thorough, chk.seed, 900, 9000)
    except tlc.TLCFailure as exc:
        chk.machinery(str(exc))
        return chk.finish()
    core.lap('generator')
    if not decks:
        chk.machinery('no deck generated')
        return chk.finish()
    if module == 'GenHex':
        # six-plane prisms: the two planes of the first pair carry a TR card that displaces them along the prism axis,
        # i.e. within themselves - the same planes, reference points at another height
        for i, d in enumerate(decks):
            if i % 3 != 1:
                continue
            d = decks[i] = adeck.normalise(d)
            lat = [c for c in d['cells'] if c['lat'] == 2]
            if len(lat) != 1 or d.get('trs'):
                continue
            lv = [lf for lf in _leaves(lat[0]['geom'])]
            if len(lv) != 6:
                continue
            surfs = {sf['n']: sf for sf in d['surfs']}
            planes = [surfs.get(abs(n)) for n in lv[:4]]
            if any(p is None or p['k'] != 'p' or p.get('tr') for p in planes):
                continue
            n1, n2 = planes[0]['p'][:3], planes[2]['p'][:3]
            axis = [n1[1] * n2[2] - n1[2] * n2[1], n1[2] * n2[0] - n1[0] * n2[2], n1[0] * n2[1] - n1[1] * n2[0]]
            g = max(abs(v) for v in axis) or 1
            axis = [v // g if v % g == 0 else v for v in axis]
            for p in planes[:2]:
                p['tr'] = 7
            d['trs'] = [{'n': 7, 'o': [3 * v for v in axis], 'm': list(adeck.IDM), 'spell': '3'}]
    # every fourth deck is followed by its twin with all lengths doubled: the same plane normals, another pitch
    # (converted by the same worker process right after it)
    twinned = []
    for i, d in enumerate(decks):
        twinned.append(d)
        if i % 4 == 0:
            t = adeck.scaled(adeck.normalise(d), 2)
            if t is not None:
                twinned.append(t)
    chk.extra['scaled_twin_decks'] = len(twinned) - len(decks)
    decks = twinned
    wide = wide_range_decks(decks, chk.seed + 68, 24 if thorough else 4)
    chk.extra['wide_range_decks'] = len(wide)
    decks = decks + wide
    if module == 'GenLat':
        decks = decks + nested_lattice_decks(chk.seed + 66, 300 if thorough else 30)
        chk.extra['nested_lattice_decks'] = 300 if thorough else 30
        decks = decks + like_lattice_decks(chk.seed + 67, 200 if thorough else 24)
        chk.extra['like_lattice_decks'] = 200 if thorough else 24
    recs, verdicts, nd, meta = common_univ.run(
        chk, decks, 'owner,compo', chk.seed,
        lambda d, r: [adeck.lattice_opts(d) + [f for f in common_univ.FLAGS if r.random() < 0.3]],
        npts=130, decorate=lambda d, r: adeck.simple_materials(d), lo=-15, hi=15, moved_every=3, unit_every=4)
    chk.cov['traces_validated_against_impl'] = len(verdicts)
    chk.cov['evaluations'] = len(verdicts)
    nt = 0
    for tid, v in sorted(verdicts.items()):
        deck, rec = nd[tid], recs[tid]
        feats = lat_features(deck)
        if v['nowners'] >= 3 and ('negidx' in feats or 'hetero' in feats):
            nt += 1
        for kind, k in v['bad']:
            if kind == 'baddeck':
                chk.machinery('generator produced a deck that is not a partition: %s' % rec['text'])
                continue
            if kind not in KINDS:
                continue
            err = rec['err']
            sig = {'clause': kind, 'errtype': err['type'] if err else None, 'where': err['where'] if err else None,
                   'features': '+'.join(feats), 'moved': bool(meta[tid].get('moved'))}
            chk.violation(sig, {'text': rec['text'], 'opts': meta[tid]['opts'], 'error': err, 'deck': deck,
                                'clauses': 'owner,compo', 'point2': deck['pts'][k - 1] if k else None})
    chk.cov['distinct_nontrivial'] = nt
    superfluous_lattice_option(chk, decks, thorough)
    element_transformation(chk, decks, thorough)
    if module == 'GenHex':
        core.lap('final-file validation')
        regular_hexagons(chk, decks, thorough)
        core.lap('regular hexagons (affine covariance)')
    # per-pass contracts (Pipeline.tla) on a subset: lattice development, fill, inlining, conversion, pruning
    sub = [nd[t] for t in sorted(nd)][::max(1, len(nd) // (600 if thorough else 150))]
    pipeline.check_decks(chk, sub, lambda d, r: [adeck.lattice_opts(d) + [f for f in common_univ.FLAGS if r.random() < 0.3]],
                         chk.seed)
    chk.cov['traces_validated_against_impl'] += chk.extra.get('pipeline_traces', 0)
    ids = sorted(recs)
    for tid in ids[:1] + ids[len(ids) // 2:len(ids) // 2 + 2]:
        chk.sample({'deck_text': recs[tid]['text'], 'opts': meta[tid]['opts'], 'verdict': verdicts.get(tid)})
    chk.extra['rule'] = ('distinct = distinct (abstract deck, options); non-trivial = at least three different owners '
                         '(elements / filler cells) own probe points and an index is negative or the fill array is heterogeneous')
    chk.extra['exhaustive'] = False
    chk.assumptions += ['DESIGN.md section 4 convention 5 (positive index across the first-listed surface; first index fastest)',
                        'unit cells with integer base vectors; lattice placed by signed-permutation motions; every third deck also with the whole world moved by a general rigid motion (any orientation: float plane normals, float TR entries)']
    return chk.finish()


if __name__ == '__main__':
    sys.exit(main())
