"""C09 - each volume gets the material and density of the owning MCNP cell.

Decks of the universe / Boolean / LIKE-BUT generators are decorated with
materials and densities drawn from value classes in several spellings (trailing
zeros, Fortran exponent markers).  TraceDeck.tla clause `compo`: for every probe
point the composition GEOMCOMP attaches to the owning volume is defined, carries
the material number and the density VALUE of the lowest-level cell located by
McnpSem.Locate (void -> m0), and two cells of one material share a composition
iff their densities are in one value class.
"""
import random
import sys

from .. import adeck, core
from . import common_bool, common_univ

KINDS = {'void_not_m0', 'composition_undefined', 'wrong_material', 'wrong_density',
         'same_density_two_compositions', 'crash', 'unowned', 'multi', 'spurious'}


def spelling_features(deck):
    f = set()
    seen = {}
    for c in deck['cells']:
        if not c['mat']:
            continue
        t = c['rhotxt']
        key = (c['mat'], c['rho'])
        seen.setdefault(key, set()).add(t)
        body = t.lstrip('+-')
        if '.' in body and body.rstrip('0') != body and not any(ch in body.lower() for ch in 'ed') \
                and not ('+' in body or '-' in body):
            f.add('trailing_zeros')
        if any(ch in body.lower() for ch in 'ed') or '+' in body or '-' in body:
            f.add('exponent')
            low = body.lower()
            exp = low.split('e')[-1] if 'e' in low else low.split('d')[-1] if 'd' in low else ''
            if exp.lstrip('+-') == '0':
                f.add('exponent_zero')
    if any(len(v) > 1 for v in seen.values()):
        f.add('two_spellings_one_value')
    for v in seen.values():
        plus = {t for t in v if '+' in t.lstrip('+-')}
        bare = {t for t in v if any(ch in t.lower() for ch in 'ed') and '+' not in t.lstrip('+-')}
        if plus and bare:
            f.add('exponent_plus_vs_bare')
    mats = {}
    for (m, r) in seen:
        mats.setdefault(m, set()).add(r)
    if any(len(v) > 1 for v in mats.values()):
        f.add('two_densities_one_material')
    return sorted(f)


def main():
    from .. import replay
    replay.maybe_replay('C09')
    chk = core.Check('C09')
    thorough = chk.tier == 'thorough'
    core.lap('start')
    rng = random.Random(chk.seed)
    decks = common_univ.generate(chk, thorough, chk.seed + 9, nquick=900, nthorough=9000)
    decks += common_bool.generate(chk, False, chk.seed + 9, nsim_quick=300)
    try:
        from . import c15
        decks += c15.like_decks(chk, thorough, chk.seed + 9, for_c09=True)
    except ImportError:
        pass
    core.lap('generators')
    if not decks:
        chk.machinery('no deck generated')
        return chk.finish()
    recs, verdicts, nd, meta = common_univ.run(
        chk, decks, 'owner,compo', chk.seed, lambda d, r: [[f for f in common_univ.FLAGS if r.random() < 0.25]],
        npts=90, decorate=lambda d, r: d if d.get('predecorated') else adeck.decorate_materials(d, r))
    chk.cov['traces_validated_against_impl'] = len(verdicts)
    chk.cov['evaluations'] = len(verdicts)
    nt = 0
    for tid, v in sorted(verdicts.items()):
        deck, rec = nd[tid], recs[tid]
        sf = spelling_features(deck)
        if 'two_spellings_one_value' in sf or 'two_densities_one_material' in sf:
            nt += 1
        for kind, k in v['bad']:
            if kind == 'baddeck':
                chk.machinery('generator produced a deck that is not a partition: %s' % rec['text'])
                continue
            if kind not in KINDS:
                continue
            err = rec['err']
            sig = {'clause': kind, 'errtype': err['type'] if err else None, 'where': err['where'] if err else None,
                   'spelling': '+'.join(sf), 'like': bool(any(c.get('like') for c in deck['cells']))}
            chk.violation(sig, {'text': rec['text'], 'opts': meta[tid]['opts'], 'error': err, 'deck': deck,
                                'clauses': 'owner,compo', 'point2': deck['pts'][k - 1] if k else None})
    chk.cov['distinct_nontrivial'] = nt
    ids = sorted(recs)
    for tid in ids[:1] + ids[len(ids) // 2:len(ids) // 2 + 2]:
        chk.sample({'deck_text': recs[tid]['text'], 'opts': meta[tid]['opts'], 'verdict': verdicts.get(tid)})
    chk.extra['rule'] = ('distinct = distinct decorated decks; non-trivial = two cells share a material with different '
                         'density values, or one density value occurs in two spellings')
    chk.extra['exhaustive'] = False
    chk.assumptions += ['"differ only in spelling" is read narrowly: trailing zeros of the fraction part and the exponent marker (e/E/d/D/omitted); 1 vs 1.0 or 15 vs 1.5e1 are not generated',
                        'composition names are not predicted, only the partition they induce and the material/density they encode']
    return chk.finish()


if __name__ == '__main__':
    sys.exit(main())
