"""C01 - cell regions: every point stays in the volume of the cell that owns it.

spec -> code: GenBool.tla behaviours (priority partitions over a palette of
surface cards incl. collections, duplicates, complements of cells and of
sub-expressions) are concretised and converted by the real code.
design: PipelineD.tla, a deterministic transcription of pot_flag / pot_optimise /
pot_to_t4_cell / de-duplication / remove_empty_volumes / remove_unused_volumes, is
model-checked (MeaningPreserved over ALL sense assignments, Wellformed,
OptimiseSound) exhaustively for small expressions, and its behaviours are
replayed into the real code (volume dictionaries compared modulo renaming).
code -> spec: TraceDeck.tla recomputes MCNP's owner of every probe point with
McnpSem.Locate (exact integer arithmetic) and compares it with the owners
T4Sem derives from the written file.
"""
import sys

from .. import core, designcheck, pipeline, tlc
from . import common_bool

OWNER_KINDS = {'spurious', 'unowned', 'multi', 'wrongid', 'wrongprov', 'crash'}


def main():
    from .. import replay
    replay.maybe_replay('C01')
    chk = core.Check('C01')
    thorough = chk.tier == 'thorough'
    core.lap('start')
    decks = common_bool.generate(chk, thorough, chk.seed)
    core.lap('generators')
    if not decks:
        chk.machinery('no deck generated')
        return chk.finish()
    recs, verdicts, nd = common_bool.run(chk, decks, 'owner', chk.seed)
    common_bool.report(chk, recs, verdicts, nd, lambda kind: kind in OWNER_KINDS,
                       lambda v, deck, feats: v['nowners'] >= 2 and ('union' in feats or 'compl' in feats
                                                                      or 'cellcompl' in feats),
                       clauses='owner')
    # cell regions in the presence of the other features (TRCL on complemented cells, zero importance, universes):
    # a slice of the GenUniv decks, judged by the same owner clause
    try:
        from . import common_univ
        udecks = common_univ.generate(chk, False, chk.seed + 101, nquick=1500 if thorough else 250)
        urecs, uverd, und, umeta = common_univ.run(chk, udecks, 'owner', chk.seed + 1, lambda d, r: [[]], npts=90)
        for tid, v in sorted(uverd.items()):
            for kind, k in v['bad']:
                if kind in OWNER_KINDS:
                    err = urecs[tid]['err']
                    chk.violation({'clause': kind, 'errtype': err['type'] if err else None, 'where': err['where'] if err else None,
                                   'features': 'universe_deck+' + '+'.join(common_univ.features(und[tid]))},
                                  {'text': urecs[tid]['text'], 'opts': [], 'error': err, 'deck': und[tid], 'clauses': 'owner',
                                   'point2': und[tid]['pts'][k - 1] if k else None})
        chk.cov['traces_validated_against_impl'] += len(uverd)
        chk.extra['universe_decks'] = len(uverd)
    except tlc.TLCFailure as exc:
        chk.machinery(str(exc))
    sub = [nd[t] for t in sorted(nd)][::max(1, len(nd) // 250)]
    pipeline.check_decks(chk, sub, lambda d, r: [[]], chk.seed)
    chk.cov['traces_validated_against_impl'] += chk.extra.get('pipeline_traces', 0)
    core.lap('conformance')
    try:
        st = designcheck.run(chk, thorough, chk.seed)
        chk.extra['design_check'] = {k: v for k, v in st.items()}
        chk.cov['traces_validated_against_impl'] += st['replayed']
    except tlc.TLCFailure as exc:
        chk.machinery(str(exc))
    core.lap('design check PipelineD + structural replay')
    chk.extra['rule'] = ('distinct = distinct abstract decks; non-trivial = the deck has a union or a complement '
                         'and at least two cells of non-zero importance own probe points (counted by TraceDeck.tla)')
    chk.extra['exhaustive'] = False
    chk.assumptions += ['probe points: 96 random half-integer points of [-3.5,3.5]^3 per deck; points on a surface are skipped',
                        'surface palette of GenBool.tla (14 cards); general parameter vectors are the business of C02/C03',
                        'DESIGN.md section 4 conventions 1, 2, 7']
    return chk.finish()


if __name__ == '__main__':
    sys.exit(main())
