"""C10 - material cards become compositions with the same nuclides and amounts.

GenMat.tla enumerates material cards (Z = 1..118, mass numbers 000 / 001 /
typical / three digits, repeated nuclides, library suffixes, keyword entries,
fractions of one sign or mixed) and cell densities of both signs; each is put
on a one-cell deck and converted; TraceCompo.tla compares the written
COMPOSITION block with Material!Expected in exact rational arithmetic.
"""
import json
import random
import shutil
import sys
from fractions import Fraction

from .. import conv, core, t4file, tlc

FRAC_SPELL = {(1, 1): ['1', '1.0', '1.00', '1e0', '1.+0'], (2, 1): ['2', '2.0', '0.2e1'], (1, 2): ['0.5', '.5', '5e-1', '5-1', '0.50'],
              (1, 4): ['0.25', '.25', '2.5e-1', '0.250'], (3, 10): ['0.3', '3e-1', '.30'], (1, 5): ['0.2', '2-1', '0.20']}
RHO_SPELL = {(-27, 10): ['-2.7', '-2.70'], (-1, 1): ['-1.0', '-1'], (3, 50): ['0.06', '6e-2', '6-2'], (1, 1): ['1.0', '1'],
             (1, 10): ['0.1', '1e-1', '.1']}
KEYWORDS = ['nlib=70c', 'gas=1', 'plib=04p']


def card_text(rec, rng):
    toks = []
    ents = rec['card']
    kwpos = sorted(rng.sample(range(len(ents) + 1), min(rec['kw'], len(ents) + 1)))
    for i, e in enumerate(ents):
        if i in kwpos:
            toks.append(rng.choice(KEYWORDS))
        zaid = '%d%03d%s' % (e['z'], e['a'], e['sfx'])
        num, den = e['frac']
        sp = rng.choice(FRAC_SPELL[(abs(num), den)])
        toks.append(zaid)
        toks.append(('-' if num < 0 else '') + sp)
    if len(ents) in kwpos:
        toks.append(rng.choice(KEYWORDS))
    return toks


def rat(text, tol=1e-12):
    try:
        from ..adeck import mcnp_float
        x = mcnp_float(text)
    except ValueError:
        return [0, 0]
    fr = Fraction(x).limit_denominator(10 ** 7)
    if abs(float(fr) - x) <= tol * max(1.0, abs(x)):
        return [fr.numerator, fr.denominator]
    return [0, 0]


def parse_items(res, matnum, rhotext=None):
    """Written composition of material `matnum` (None-safe), plus block-level facts.  When the material is used at
    several densities the composition whose name carries the value of `rhotext` is taken."""
    out = {'found': 0, 'type': '', 'names': [], 'values': [], 'nb_atom': False, 'dens': [0, 1], 'm0': False,
           'declared': -1, 'nwritten': 0}
    t4 = t4file.parse(res['out'])
    c = t4['compo']
    if c is None:
        return out
    items = [it for it in c['items'] if it['name'].startswith('m%d_' % matnum)]
    if rhotext is not None and len(items) > 1:
        from ..adeck import mcnp_float
        def same(it):
            try:
                return mcnp_float(it['name'].partition('_')[2]) == mcnp_float(rhotext)
            except ValueError:
                return False
        items = [it for it in items if same(it)] or items
    out['m0'] = any(it['name'] == 'm0' for it in c['items'])
    out['declared'] = int(c['declared']) if c['declared'].isdigit() else -1
    out['nwritten'] = len(c['items'])
    out['found'] = len(items)
    if items:
        it = items[0]
        out['type'] = it['type']
        out['names'] = [n for n, _ in it['iso']]
        out['values'] = [rat(v) for _, v in it['iso']]
        out['nb_atom'] = bool(it['nb_atom'])
        out['dens'] = rat(it['dens']) if it['dens'] is not None else [0, 1]
    return out


def run_one(job):
    """One deck with two materials (cells 1 and 2); returns one trace per material."""
    tid, (rec1, toks1, rho1), (rec2, toks2, rho2) = job
    one_card = toks2 is None       # ONE material card used by two cells, at a mass density and at an atom density
    ind1 = ' ' * (tid % 5)         # a card name may start anywhere in columns 1-5
    ind2 = ' ' * ((tid // 5) % 5)
    if one_card:
        deck = ('composition test\n1 1 %s -1 imp:n=1\n2 1 %s 1 -2 imp:n=1\n3 0 2 imp:n=0\n\n1 so 5\n2 so 8\n\n%sm1 %s\n'
                % (rho1, rho2, ind1, ' '.join(toks1)))
    else:
        deck = ('composition test\n1 1 %s -1 imp:n=1\n2 2 %s 1 -2 imp:n=1\n3 0 2 imp:n=0\n\n1 so 5\n2 so 8\n\n%sm1 %s\n%sm2 %s\n'
                % (rho1, rho2, ind1, ' '.join(toks1), ind2, ' '.join(toks2)))
    res = conv.convert(deck)
    outs = []
    for k, rec in ((1, rec1), (2, rec2)):
        out = {'tid': 2 * tid + k - 2, 'card': [{'z': e['z'], 'a': e['a'], 'frac': e['frac']} for e in rec['card']],
               'rho': rec['rho'], 'result': res['result'], 'diag': bool(res['error'] and res['error']['diag']),
               'found': 0, 'type': '', 'names': [], 'values': [], 'nb_atom': False, 'dens': [0, 1], 'm0': False,
               'declared': -1, 'nwritten': 0, 'text': deck, 'err': res['error'], 'warnings': res['warnings'],
               'other_rejected': False, 'same_density_text': rho1 == rho2}
        if res['result'] == 'ok':
            out.update(parse_items(res, 1 if one_card else k, rho1 if k == 1 else rho2))
        outs.append(out)
    return outs


def main():
    chk = core.Check('C10')
    thorough = chk.tier == 'thorough'
    rng = random.Random(chk.seed)
    core.lap('start')
    recs = []
    try:
        for lvl, n in ((1, 1500), (2, 20000 if thorough else 2500)):
            cfg = 'INIT Init\nNEXT Next\nCONSTANTS Lvl = %d\nCHECK_DEADLOCK FALSE\n' % lvl
            res = tlc.run('GenMat', cfg, workers=16, simulate=max(1, n // 16), depth=8, seed=chk.seed + lvl, timeout=900)
            chk.add_tlc(res)
            recs += [r for r in tlc.printed_json(res['stdout']) if isinstance(r, dict) and 'card' in r]
    except tlc.TLCFailure as exc:
        chk.machinery(str(exc))
        return chk.finish()
    uniq = {json.dumps(r, sort_keys=True): r for r in recs}
    recs = [uniq[k] for k in sorted(uniq)]
    core.lap('generator')
    jobs = []
    rng.shuffle(recs)
    for i in range(0, len(recs) - 1, 2):
        r1, r2 = recs[i], recs[i + 1]
        rho1 = rng.choice(RHO_SPELL[tuple(r1['rho'])])
        if i % 10 == 4:
            # one card, two cells, densities of opposite sign (the kind of composition goes with the cell's density)
            other = [k for k in RHO_SPELL if (k[0] > 0) != (r1['rho'][0] > 0)]
            rho_b = list(rng.choice(sorted(other)))
            r2 = dict(r1, rho=rho_b)
            jobs.append((i // 2 + 1, (r1, card_text(r1, rng), rho1), (r2, None, rng.choice(RHO_SPELL[tuple(rho_b)]))))
            continue
        if rng.random() < 0.4:
            r2 = dict(r2, rho=r1['rho'])          # two materials at the same density
            rho2 = rho1
        else:
            rho2 = rng.choice(RHO_SPELL[tuple(r2['rho'])])
        jobs.append((i // 2 + 1, (r1, card_text(r1, rng), rho1), (r2, card_text(r2, rng), rho2)))
    results = conv.run_batch(run_one, jobs, chunksize=32)
    core.lap('converter x%d' % len(jobs))
    good = []
    for r in results:
        if isinstance(r, dict) and 'machinery_error' in r:
            chk.machinery(r['machinery_error'])
        else:
            good += r
    # a deck is rejected as a whole when either card mixes signs: tell the specification
    for a, b in zip(good[0::2], good[1::2]):
        sa = len({e['frac'][0] > 0 for e in a['card']}) == 2
        sb = len({e['frac'][0] > 0 for e in b['card']}) == 2
        a['other_rejected'], b['other_rejected'] = sb, sa
    keep = ('tid', 'card', 'rho', 'result', 'diag', 'found', 'type', 'names', 'values', 'nb_atom', 'dens', 'm0', 'declared',
            'nwritten', 'other_rejected')
    sd = tlc.scratch_dir('c10')
    core.write_blocks(sd, [{k: r[k] for k in keep} for r in good])
    try:
        val = tlc.run('TraceCompo', 'INIT Init\nNEXT Next\nCHECK_DEADLOCK FALSE\n', env={'TRACE_DIR': sd}, workers=16, timeout=1500)
    except tlc.TLCFailure as exc:
        chk.machinery(str(exc))
        return chk.finish()
    finally:
        shutil.rmtree(sd, ignore_errors=True)
    core.lap('TraceCompo validation')
    chk.add_tlc(val)
    byid = {r['tid']: r for r in good}
    nval = 0
    for b in core.collect_blocks(val):
        nval += b['n']
        for tid, verdict in b['bad']:
            r = byid[tid]
            signs = {e['frac'][0] > 0 for e in r['card']}
            names = [(e['z'], e['a']) for e in r['card']]
            sig = {'clause': verdict, 'errtype': r['err']['type'] if r['err'] else None,
                   'mixed': len(signs) == 2, 'repeated_nuclide': len(set(names)) < len(names),
                   'atom_density': r['rho'][0] > 0, 'same_density_as_other_material': bool(r.get('same_density_text'))}
            chk.violation(sig, {'text': r['text'], 'error': r['err'], 'card': r['card'], 'rho': r['rho'],
                                'written': {k: r[k] for k in ('type', 'names', 'values', 'nb_atom', 'dens')}})
    if nval != len(good):
        chk.machinery('TraceCompo validated %d of %d' % (nval, len(good)))
    chk.cov['traces_validated_against_impl'] = nval
    chk.cov['evaluations'] = nval
    chk.cov['distinct_nontrivial'] = sum(1 for r in good if len(r['card']) >= 2 or any(e['a'] == 0 for e in r['card']))
    for r in good[:1] + good[len(good) // 2:len(good) // 2 + 2]:
        chk.sample({'deck_text': r['text'], 'written': {k: r[k] for k in ('type', 'names', 'values', 'nb_atom')}})
    chk.extra['rule'] = 'distinct = distinct (card, density) records; non-trivial = at least two nuclides or a natural element'
    chk.extra['exhaustive'] = False
    chk.assumptions += ['weight fractions with a positive (atom) density are declared unsupported by the converter (warning, empty composition) and are outside the statement',
                        'amounts compared as exact rationals after rationalising the written decimals (tolerance 1e-12)']
    return chk.finish()


if __name__ == '__main__':
    sys.exit(main())
