"""C13 - de-duplication and inlining options never change the geometry.

Every GenUniv / GenBool deck is converted under all 2^3 flag combinations and
under inline thresholds around the critical scores; every output is validated
by TraceDeck.tla against the ONE reference meaning of the deck (owner,
provenance and composition of every probe point), hence all outputs agree
pairwise.  The written files are also compared textually to count the cases in
which equality of meaning is not equality of text.
"""
import itertools
import random
import sys

from .. import adeck, core, designcheck, pipeline, tlc
from . import common_bool, common_univ

KINDS = {'spurious', 'unowned', 'multi', 'wrongid', 'wrongprov', 'crash', 'void_not_m0',
         'composition_undefined', 'wrong_material', 'wrong_density', 'same_density_two_compositions'}
SCORES = ['0', '0.4', '0.75', '1.5', '3', '1e9']


def optsets(deck, rng):
    out = [list(c) for n in range(4) for c in itertools.combinations(common_univ.FLAGS, n)]
    for sc in rng.sample(SCORES, 3):
        out.append(['--max-inline-score', sc])
    out.append(['--skip-deduplication', '--max-inline-score', rng.choice(SCORES)])
    return out


def main():
    from .. import replay
    replay.maybe_replay('C13')
    chk = core.Check('C13')
    thorough = chk.tier == 'thorough'
    core.lap('start')
    rng = random.Random(chk.seed)
    decks = common_univ.generate(chk, thorough, chk.seed + 13, nquick=500, nthorough=20000)
    bdecks = common_bool.generate(chk, False, chk.seed + 13, nsim_quick=150)
    core.lap('generators')
    rng.shuffle(decks)
    rng.shuffle(bdecks)
    decks = decks[:1200 if thorough else 110] + bdecks[:600 if thorough else 60]
    if not decks:
        chk.machinery('no deck generated')
        return chk.finish()
    recs, verdicts, nd, meta = common_univ.run(
        chk, decks, 'owner,compo', chk.seed, optsets, npts=80,
        decorate=lambda d, r: adeck.decorate_materials(d, r, spellings='canonical'))
    chk.cov['traces_validated_against_impl'] = len(verdicts)
    chk.cov['evaluations'] = len(verdicts)
    texts = {}
    for tid, rec in recs.items():
        texts.setdefault(meta[tid]['deck_index'], set()).add(rec.get('out_hash'))
    for tid, v in sorted(verdicts.items()):
        deck, rec = nd[tid], recs[tid]
        for kind, k in v['bad']:
            if kind == 'baddeck':
                chk.machinery('generator produced a deck that is not a partition: %s' % rec['text'])
                continue
            if kind not in KINDS:
                continue
            err = rec['err']
            sig = {'clause': kind, 'errtype': err['type'] if err else None, 'where': err['where'] if err else None,
                   'opts': ' '.join(sorted(o.replace('--', '') for o in meta[tid]['opts'])),
                   'features': '+'.join(common_univ.features(deck))}
            chk.violation(sig, {'text': rec['text'], 'opts': meta[tid]['opts'], 'error': err, 'deck': deck,
                                'clauses': 'owner,compo', 'point2': deck['pts'][k - 1] if k else None})
    chk.cov['distinct_nontrivial'] = sum(1 for s in texts.values() if len(s) >= 2)
    # per-pass contracts (Pipeline.tla), incl. "de-duplication merges two numbers only if same surface"
    uniq = {}
    for tid, d in nd.items():
        uniq.setdefault(meta[tid]['deck_index'], d)
    core.lap('final-file validation')
    nst = pipeline.check_decks(chk, list(uniq.values()),
                               lambda d, r: [adeck.lattice_opts(d), adeck.lattice_opts(d) + ['--always-inline-filling', '--always-inline-filled'],
                                             adeck.lattice_opts(d) + ['--max-inline-score', '0']], chk.seed)
    chk.cov['traces_validated_against_impl'] += chk.extra.get('pipeline_traces', 0)
    core.lap('per-pass validation (%d stage states)' % nst)
    # expressions over duplicated surfaces (incl. duplicates of the auxiliary planes): PipelineD behaviours replayed
    # into the real code with de-duplication on and validated against the reference meaning
    try:
        st = designcheck.run(chk, thorough, chk.seed, configs=designcheck.CONFIGS[1:], simulate=thorough)
        chk.extra['design_replay'] = {k: v for k, v in st.items() if k != 'disagreements'}
        chk.cov['traces_validated_against_impl'] += st['replayed']
    except tlc.TLCFailure as exc:
        chk.machinery(str(exc))
    core.lap('design replay over duplicate classes')
    # FILL development + inlining + cell references under EVERY option set: PipelineD2 model-checked and replayed
    try:
        st = designcheck.run_fill(chk, thorough, chk.seed)
        chk.extra['fill_design_replay'] = st
        chk.cov['traces_validated_against_impl'] += st['replayed']
    except tlc.TLCFailure as exc:
        chk.machinery(str(exc))
    core.lap('fill design replay (PipelineD2)')
    ids = sorted(recs)
    for tid in ids[:1] + ids[len(ids) // 2:len(ids) // 2 + 2]:
        chk.sample({'deck_text': recs[tid]['text'], 'opts': meta[tid]['opts'], 'verdict': verdicts.get(tid)})
    chk.extra['rule'] = ('evaluations = (deck, option set) conversions; distinct_nontrivial = decks whose outputs under '
                         'two option sets differ textually (so equality of meaning is not equality of text)')
    chk.extra['decks'] = len(decks)
    chk.extra['option_sets_per_deck'] = 12
    chk.extra['exhaustive'] = False
    chk.assumptions += ['all 8 flag combinations per deck; thresholds sampled from %s' % SCORES,
                        'the merge map of the de-duplication pass (hook stage dedup) is checked by Pipeline!MergeDefects: merged numbers must have equal sense rows and identical polynomials']
    return chk.finish()


if __name__ == '__main__':
    sys.exit(main())
