"""C03 - macrobodies: interior, exterior and numbered facets.

GenBody.tla enumerates macrobody cards; for each body one deck with the probe
cells -b / +b and one deck per facet k with the probe cells -b.k / +b.k are
converted.  TraceDeck.tla compares the owners of a half-integer probe grid with
McnpSurf.InBody / FacetSense (exact integer arithmetic, manual's facet order).
"""
import json
import random
import sys

from .. import adeck, conv, core, deckrun, tlc

KINDS = {'spurious', 'unowned', 'multi', 'wrongid', 'wrongprov', 'crash'}


def body_deck(card, k):
    return {'surfs': [dict(card, n=1)],
            'cells': [{'n': 1, 'geom': ['S', -1, k], 'imp': 1}, {'n': 2, 'geom': ['S', 1, k], 'imp': 1}]}


def handedness(card):
    """+1 / -1 / 0: orientation of the three edge vectors of BOX / WED / REC-12 / RHP-15."""
    p = card['p']
    if card['k'] in ('box', 'wed') or (card['k'] == 'rec' and len(p) == 12):
        a, b, c = p[3:6], p[6:9], p[9:12]
        det = (a[0] * (b[1] * c[2] - b[2] * c[1]) - a[1] * (b[0] * c[2] - b[2] * c[0])
               + a[2] * (b[0] * c[1] - b[1] * c[0]))
        return (det > 0) - (det < 0)
    return 0


def main():
    from .. import replay
    replay.maybe_replay('C03')
    chk = core.Check('C03')
    thorough = chk.tier == 'thorough'
    rng = random.Random(chk.seed)
    core.lap('start')
    recs = []
    try:
        for lvl in ((1, 2) if thorough else (1,)):
            cfg = 'INIT Init\nNEXT Next\nCONSTANTS Lvl = %d\nCHECK_DEADLOCK FALSE\n' % lvl
            res = tlc.run('GenBody', cfg, workers=16, timeout=1500)
            chk.add_tlc(res)
            recs += [r for r in tlc.printed_json(res['stdout']) if isinstance(r, dict) and 'card' in r]
    except tlc.TLCFailure as exc:
        chk.machinery(str(exc))
        return chk.finish()
    core.lap('generators')
    uniq = {json.dumps(r['card'], sort_keys=True): r for r in recs}
    recs = [uniq[k] for k in sorted(uniq)]
    allpts = adeck.grid_points(rng, 10 ** 6, -9, 9)
    innerpts = [p for p in allpts if max(abs(v) for v in p) <= 7]
    outerpts = [p for p in allpts if max(abs(v) for v in p) > 7]
    jobs, nd, meta = [], {}, {}
    units = set()
    tid = 0
    somepts = rng.sample(allpts, 300) if thorough else None       # thorough: the variant decks probe a sample of the grid
    for r in recs:
        facets = list(range(0, r['nfacets'] + 1))
        if not thorough and len(facets) > 4:
            facets = [0] + sorted(rng.sample(facets[1:], 3))
        for k in facets:
            tid += 1
            d = adeck.normalise(body_deck(r['card'], k))
            # quick: 110 of the 512 grid points of [-4,4]^3, where the bodies are, and 40 of the rest
            d['pts'] = allpts if thorough else rng.sample(innerpts, 110) + rng.sample(outerpts, 40)
            nd[tid] = d
            meta[tid] = (r, k)
            jobs.append({'tid': tid, 'deck': d, 'opts': []})
            if k > 0:
                # the same facet in a cell that carries a TRCL (the facet reference must survive the TRCL pass)
                tid += 1
                dt = adeck.normalise({'surfs': [dict(r['card'], n=1)],
                                      'cells': [{'n': 1, 'geom': ['S', -1, k], 'hastrcl': True, 'trclspell': '12',
                                                 'trcl': {'o': [1, 0, -1], 'm': [0, 1, 0, -1, 0, 0, 0, 0, 1]}},
                                                {'n': 2, 'geom': ['C', 1]}]})
                dt['pts'] = d['pts']
                nd[tid] = dt
                meta[tid] = (r, k)
                jobs.append({'tid': tid, 'deck': dt, 'opts': []})
            if k > 0:
                # the facet reference under a complement: #( b.k ) written out, and #n of the cell that holds it
                for geom1 in (['N', ['S', 1, k]], ['S', 1, k]):
                    tid += 1
                    dn = adeck.normalise({'surfs': [dict(r['card'], n=1)],
                                          'cells': [{'n': 1, 'geom': geom1}, {'n': 2, 'geom': ['C', 1]}]})
                    dn['pts'] = somepts or d['pts']
                    nd[tid] = dn
                    meta[tid] = (r, k)
                    jobs.append({'tid': tid, 'deck': dn, 'opts': []})
            if k in (0, 1) or thorough:
                # the positive reference (the union of the outer half-spaces of the facets) inside an intersection that
                # is itself an operand of a union: ( +b -8 ) : -9
                tid += 1
                du = adeck.normalise({'surfs': [dict(r['card'], n=1), {'n': 8, 'k': 'so', 'p': [30]}, {'n': 9, 'k': 's', 'p': [6, 6, 6, 2]}],
                                      'cells': [{'n': 1, 'geom': [':', ['*', ['S', 1, k], ['S', -8, 0]], ['S', -9, 0]]},
                                                {'n': 2, 'geom': ['C', 1]}]})
                du['pts'] = somepts or d['pts']
                nd[tid] = du
                meta[tid] = (r, k)
                jobs.append({'tid': tid, 'deck': du, 'opts': []})
            if k in (0, 1) or thorough:
                # the body (or the facet) in a universe cell that carries a TRCL, the universe placed by a FILL with
                # another transformation: the surface goes through two successive transformations
                tid += 1
                d2 = adeck.normalise({'surfs': [dict(r['card'], n=1), {'n': 9, 'k': 'so', 'p': [60]}],
                                      'cells': [{'n': 1, 'geom': ['S', -9, 0], 'fill': 5, 'hasftr': True, 'ftrspell': '12',
                                                 'ftr': {'o': [0, 1, -1], 'm': [0, 0, 1, 1, 0, 0, 0, 1, 0]}},
                                                {'n': 2, 'geom': ['S', 9, 0], 'imp': 0},
                                                {'n': 11, 'geom': ['S', -1, k], 'u': 5, 'hastrcl': True, 'trclspell': '12',
                                                 'trcl': {'o': [1, 0, -1], 'm': [0, 1, 0, -1, 0, 0, 0, 0, 1]}},
                                                {'n': 12, 'geom': ['C', 11], 'u': 5}]})
                d2['pts'] = d['pts']
                nd[tid] = d2
                meta[tid] = (r, k)
                jobs.append({'tid': tid, 'deck': d2, 'opts': []})
            if k in (0, 1) or thorough:
                # another unit of length: the text in units of 1e-3 / 400 (thin foils, large halls), TLC keeps the exact card
                ds = dict(d, pts=somepts) if somepts else d
                res = adeck.unit_change(ds, [0.001, 400.0][tid % 2])
                if res is not None:
                    tid += 1
                    nd[tid] = ds
                    meta[tid] = (r, k)
                    units.add(tid)
                    jobs.append({'tid': tid, 'deck': ds, 'opts': [], 'text': adeck.concretise(res[0]), 'real_points': res[1]})
            if r['card']['k'] in ('arb', 'box', 'wed', 'rpp') and (k in (0, 1, 2) or thorough):
                # a foil: the body squeezed to a thousandth of its size along one axis, away from the origin (bodies
                # given by vertices and edge vectors are affine images of themselves; the sense of a point follows)
                A = [[0.0005, 0, 0], [0, 1, 0], [0, 0, 1]] if tid % 2 else [[1, 0, 0], [0, 1, 0], [0, 0, 0.0004]]
                bvec = [5.0, 0.0, 0.0] if tid % 2 else [0.0, -1.0, 7.0]
                ds = dict(d, pts=somepts) if somepts else d
                mv = adeck.affine_world(ds, A, bvec)
                if mv is not None:
                    tid += 1
                    nd[tid] = ds
                    meta[tid] = (r, k)
                    units.add(tid)
                    jobs.append({'tid': tid, 'deck': ds, 'opts': [], 'text': adeck.concretise(mv),
                                 'real_points': adeck.affine_points(ds['pts'], A, bvec)})
            if k == 0 or thorough:
                # covariance: the same deck under a general rigid motion
                tid += 1
                nd[tid] = d
                meta[tid] = (r, k)
                jobs.append({'tid': tid, 'deck': d, 'opts': [], 'phi': adeck.PHIS[tid % len(adeck.PHIS)], 'moved': True})
    moved = {j['tid'] for j in jobs if j.get('moved')}
    records = conv.run_batch(deckrun.run_deck, jobs, chunksize=16)
    core.lap('converter x%d' % len(jobs))
    good = []
    for rec in records:
        if 'machinery_error' in rec:
            chk.machinery(rec['machinery_error'])
        else:
            good.append(rec)
    try:
        verdicts = deckrun.validate(chk, good, nd, 'owner')
    except tlc.TLCFailure as exc:
        chk.machinery(str(exc))
        return chk.finish()
    core.lap('TraceDeck validation')
    byid = {r['tid']: r for r in good}
    chk.cov['traces_validated_against_impl'] = len(verdicts)
    chk.cov['evaluations'] = len(verdicts)
    nt = 0
    for tid, v in sorted(verdicts.items()):
        (r, k), rec = meta[tid], byid[tid]
        card = r['card']
        if v['nowners'] >= 2:
            nt += 1
        for kind, pt in v['bad']:
            if kind not in KINDS:
                if kind == 'baddeck':
                    chk.machinery('baddeck for body %r' % (card,))
                continue
            err = rec['err']
            if tid in units and kind == 'crash' and err and err['diag']:
                continue        # a body refused with a diagnostic at that scale is not a converted body
            sig = {'clause': kind, 'body': card['k'], 'nparam': len(card['p']), 'facet': k,
                   'handedness': handedness(card), 'moved': tid in moved or tid in units,
                   'errtype': err['type'] if err else None, 'where': err['where'] if err else None}
            chk.violation(sig, {'text': rec['text'], 'card': card, 'facet': k, 'error': err,
                                'deck': nd[tid], 'clauses': 'owner',
                                'point2': nd[tid]['pts'][pt - 1] if pt else None})
    chk.cov['distinct_nontrivial'] = nt
    for tid in sorted(byid)[:1] + sorted(byid)[len(byid) // 2:len(byid) // 2 + 2]:
        chk.sample({'card': meta[tid][0]['card'], 'facet': meta[tid][1], 'deck_text': byid[tid]['text'],
                    'verdict': verdicts.get(tid)})
    chk.extra['rule'] = ('distinct = distinct (body card, facet index or 0 for the whole body); non-trivial = both probe '
                         'cells own probe points')
    chk.extra['exhaustive'] = bool(thorough)
    chk.extra['bodies'] = len(recs)
    chk.assumptions += ['decided on a half-integer probe grid of [-4.5,4.5]^3 (150 random points per deck in quick, all 1000 in thorough), not by polynomial identity',
                        '9-entry RHP/HEX: s and t are r turned by +60 and +120 degrees about h (the converter reading, validated by its authors against MCNP)',
                        'ELL with a positive last entry follows the formula documented in the converter (authors: validated against the MCNP executable)',
                        'DESIGN.md section 4 convention 2 (manual facet tables)']
    return chk.finish()


if __name__ == '__main__':
    sys.exit(main())
