"""C15 - LIKE n BUT equals the explicit cell card it abbreviates.

GenLike.tla enumerates base cells and BUT lists (every subset of MAT, RHO, IMP,
FILL, U plus TRCL, LIKE-of-LIKE chains) and states what the LIKE card means
(ExpandLike).  Each abstract deck is written twice - with LIKE cards and with
the explicit cards - and converted; the two outputs must be identical and both
must match McnpSem.Locate (owner, provenance, composition).
"""
import json
import random
import sys

from .. import adeck, conv, core, deckrun, tlc
from . import common_univ

KINDS = {'spurious', 'unowned', 'multi', 'wrongid', 'wrongprov', 'crash', 'void_not_m0',
         'composition_undefined', 'wrong_material', 'wrong_density', 'same_density_two_compositions',
         'like_differs_from_explicit', 'note', 'zero_imp_converted'}
RHO = {1: ['-2.7', '-2.70', '-2.700'], 2: ['5e-2', '5-2', '5E-2']}     # density value classes, any material


def like_decks(chk, thorough, seed, for_c09=False):
    cfg = 'INIT Init\nNEXT Next\nCHECK_DEADLOCK FALSE\n'
    n = (8000 if thorough else 900) if not for_c09 else (2000 if thorough else 300)
    res = tlc.run('GenLike', cfg, workers=16, simulate=max(1, n // 16), depth=8, seed=seed + 15, timeout=900)
    chk.add_tlc(res)
    raw = [d for d in tlc.printed_json(res['stdout']) if isinstance(d, dict) and 'chain3' in d]
    uniq = {json.dumps(d, sort_keys=True): d for d in raw}
    rng = random.Random(seed)
    out = []
    for k in sorted(uniq):
        d = uniq[k]
        if any('fill' in c['but'] and c['fill'] == 0 for c in d['cells']):
            continue
        out.append(spell_like(d, rng))
    return out


def spell_like(d, rng):
    """Attach density spellings and the BUT tokens to a GenLike deck."""
    values = []
    matscale = rng.choice([1, 10])          # material numbers 1, 2 ... or 10, 20 ... (MAT=10 on a BUT list)
    for c in d['cells']:
        c['mat'] = c['mat'] * matscale
    for c in d['cells']:
        if c['mat'] == 0:
            c['rho'], c['rhotxt'] = 0, ''
            continue
        c['rhotxt'] = rng.choice(RHO[c['rho']])
        val = adeck.mcnp_float(c['rhotxt'])
        if val not in values:
            values.append(val)
        c['rho'] = values.index(val) + 1
    d['rhovalues'] = values
    # importances for one particle, or for two particles as a list (IMP:N,P=x) or as separate keywords; a BUT
    # list then overrides both particles, again in either form (the importance of a cell is the maximum)
    # or - 'data' - on an IMP:N data card, one entry per cell card in card order: a LIKE n BUT cell has its own entry
    impstyle = rng.choice(['n', 'list', 'sep', 'data'])
    if impstyle == 'data':
        for c in d['cells']:
            c['impsrc'] = 'data'
        d['impcards'] = [{'par': 'n', 'tokens': [rng.choice(['%d', '%d.0']) % c['imp'] for c in d['cells']]}]
    for c in d['cells']:
        if not c.get('like') and impstyle in ('list', 'sep'):
            c['impsrc'] = 'cellmulti'
            c['imptxt'] = ('imp:n,p=%d' % c['imp']) if impstyle == 'list' else ('imp:n=%d imp:p=%d' % (c['imp'], c['imp']))
    # transformations (pure translations) with three entries, or - every other deck - the base cards in the
    # starred 12-entry form (identity in degrees) and the BUT overrides with the full matrix of cosines
    # or - 'starbut' - the BUT overrides starred as well (*TRCL=(.. angles ..), *FILL=n (.. angles ..))
    trstyle = rng.choice(['3', 'full', 'starbut'])
    STAR_ID = '0 90 90 90 0 90 90 90 0'
    butorder = rng.random() < 0.5
    matlead = rng.random() < 0.3          # material numbers with a leading zero ('01', MAT=02): the same numbers
    for c in d['cells']:
        c['matlead'] = matlead
    d['butstar'] = trstyle == 'starbut'
    for c in d['cells']:
        c['trclspell'] = '3' if trstyle == '3' else 'star'
        c['ftrspell'] = '3' if trstyle == '3' else 'star'
        toks = []
        for key in ('mat', 'rho', 'imp', 'fill', 'u', 'trcl'):
            if key not in c['but']:
                continue
            if key == 'mat':
                toks.append(('mat=0%d' if matlead and c['mat'] else 'mat=%d') % c['mat'])
            elif key == 'rho':
                toks.append('rho=%s' % c['rhotxt'])
            elif key == 'imp':
                if impstyle == 'data':
                    continue
                if impstyle == 'n':
                    toks.append('imp:n=%d' % c['imp'])
                else:
                    toks.append(rng.choice(['imp:n,p=%d' % c['imp'], 'imp:n=%d imp:p=%d' % (c['imp'], c['imp']),
                                            'imp:p=%d imp:n=%d' % (c['imp'], c['imp'])]))
            elif key == 'fill':
                if trstyle == 'starbut' and c['hasftr']:
                    toks.append('*fill=%d (0 1 1 %s)' % (c['fill'], STAR_ID))
                else:
                    toks.append('fill=%d' % c['fill'] + ((' (0 1 1)' if trstyle == '3' else ' (0 1 1 1 0 0 0 1 0 0 0 1)')
                                                         if c['hasftr'] else ''))
            elif key == 'u':
                toks.append('u=%d' % c['u'])
            elif trstyle == 'starbut':
                toks.append(('*trcl=(%d %d %d ' + STAR_ID + ')') % tuple(c['trcl']['o']))
            else:
                toks.append(('trcl=(%d %d %d)' if trstyle == '3' else 'trcl=(%d %d %d 1 0 0 0 1 0 0 0 1)') % tuple(c['trcl']['o']))
        if butorder:
            rng.shuffle(toks)       # the keywords of a BUT list may come in any order
        c['butkeys'] = sorted(c['but'])
        c['but'] = toks
    d['predecorated'] = True
    return d


def explicit(deck):
    """The same deck with every LIKE n BUT card written out; a transformation is spelled as the card that supplied
    it spelled it (the BUT list: cosines; the base card: as the base card), so that the two texts give the same
    floating-point numbers."""
    d = dict(deck)
    cells = []
    for c in deck['cells']:
        c2 = dict(c, like=0)
        if c.get('like'):
            if 'trcl' in c.get('butkeys', []) and c['trclspell'] == 'star' and not deck.get('butstar'):
                c2['trclspell'] = '12'
            if 'fill' in c.get('butkeys', []) and c['ftrspell'] == 'star' and not deck.get('butstar'):
                c2['ftrspell'] = '12'
        cells.append(c2)
    d['cells'] = cells
    return d


def run_pair(job):
    """Worker: convert the LIKE text and the explicit text of one deck."""
    deck = job['deck']
    a = deckrun.run_deck({'tid': job['tid'], 'deck': deck, 'opts': job['opts'], 'keep_out': True})
    b = deckrun.run_deck({'tid': job['tid'], 'deck': explicit(deck), 'opts': job['opts'], 'keep_out': True})
    a['explicit_text'] = b['text']
    a['explicit_result'] = b['result']
    a['explicit_err'] = b['err']
    a['same_output'] = (a['result'] == b['result']) and (a['out'] == b['out'])
    a['out'] = None
    return a


def main():
    from .. import replay
    replay.maybe_replay('C15')
    chk = core.Check('C15')
    thorough = chk.tier == 'thorough'
    core.lap('start')
    rng = random.Random(chk.seed)
    try:
        decks = like_decks(chk, thorough, chk.seed)
    except tlc.TLCFailure as exc:
        chk.machinery(str(exc))
        return chk.finish()
    core.lap('generator')
    jobs, nd = [], {}
    for i, d in enumerate(decks):
        d = adeck.normalise(d)
        if i % 4 == 3:
            d = adeck.renumber(d, cmap=lambda n: 123450 + n)      # six-digit cell numbers (LIKE 123451 BUT ..)
        d['pts'] = adeck.grid_points(rng, 70, -5, 13)
        nd[i + 1] = d
        jobs.append({'tid': i + 1, 'deck': d, 'opts': [f for f in common_univ.FLAGS if rng.random() < 0.2]})
    records = conv.run_batch(run_pair, jobs, chunksize=8)
    core.lap('converter x%d' % (2 * len(jobs)))
    good = [r for r in records if 'machinery_error' not in r]
    for r in records:
        if 'machinery_error' in r:
            chk.machinery(r['machinery_error'])
    try:
        verdicts = deckrun.validate(chk, good, nd, 'owner,compo,zeroimp')
    except tlc.TLCFailure as exc:
        chk.machinery(str(exc))
        return chk.finish()
    core.lap('TraceDeck validation')
    chk.cov['traces_validated_against_impl'] = len(verdicts)
    chk.cov['evaluations'] = 2 * len(verdicts)
    # the cell parser judged on its own output (stage "parsed"): every LIKE n BUT card must be read as the abstract
    # deck says (universe, importance zero or not, FILL universe and transformation, TRCL, material)
    from .. import pipeline
    sub = [nd[t] for t in sorted(nd)][::max(1, len(nd) // (1500 if thorough else 250))]
    pipeline.check_decks(chk, sub, lambda d, r: [[]], chk.seed)
    chk.cov['traces_validated_against_impl'] += chk.extra.get('pipeline_traces', 0)
    byid = {r['tid']: r for r in good}
    nt = 0
    for tid, v in sorted(verdicts.items()):
        deck, rec = nd[tid], byid[tid]
        overridden = sorted({k for c in deck['cells'] for k in c.get('butkeys', [])})
        chain = any(c.get('like') == 2 for c in deck['cells'])
        if len(overridden) > 1:
            nt += 1
        bad = list(v['bad'])
        if not rec['same_output']:
            bad.append(['like_differs_from_explicit', 0])
        for kind, k in bad:
            if kind == 'baddeck':
                chk.machinery('generator produced a deck that is not a partition: %s' % rec['text'])
                continue
            if kind not in KINDS:
                continue
            err = rec['err']
            # which overridden keys could explain it: report the BUT lists
            sig = {'clause': kind, 'errtype': err['type'] if err else None, 'where': err['where'] if err else None,
                   'imp_lowered': bool(any('imp' in c.get('butkeys', []) and c['imp'] == 0 for c in deck['cells'])),
                   'chain': bool(chain)}
            chk.violation(sig, {'text': rec['text'], 'explicit_text': rec['explicit_text'], 'opts': rec['opts'],
                                'error': err, 'explicit_error': rec['explicit_err'], 'deck': deck,
                                'clauses': 'owner,compo,zeroimp', 'overridden': overridden,
                                'point2': deck['pts'][k - 1] if k else None})
    chk.cov['distinct_nontrivial'] = nt
    ids = sorted(byid)
    for tid in ids[:1] + ids[len(ids) // 2:len(ids) // 2 + 2]:
        chk.sample({'like_text': byid[tid]['text'], 'explicit_text': byid[tid]['explicit_text'],
                    'verdict': verdicts.get(tid)})
    chk.extra['rule'] = ('distinct = distinct abstract decks (each converted twice); non-trivial = at least one parameter '
                         'besides TRCL is overridden')
    chk.extra['exhaustive'] = False
    return chk.finish()


if __name__ == '__main__':
    sys.exit(main())
