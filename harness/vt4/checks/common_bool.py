"""Shared driver of the checks built on GenBool decks (C01, C08, C12)."""
import json
import random

from .. import adeck, conv, core, deckrun, tlc


def deck_features(deck):
    """Features of the abstract deck, for signatures and non-triviality."""
    feats = set()

    def walk(t, inside_n):
        k = t[0]
        if k == 'S':
            if t[2]:
                feats.add('facet')
            return
        if k == 'C':
            feats.add('cellcompl')
            if inside_n:
                feats.add('cellcompl_in_compl')
            return
        if k == 'N':
            feats.add('compl')
            walk(t[1], True)
            return
        feats.add('union' if k == ':' else 'inter')
        for kid in t[1:]:
            walk(kid, inside_n)
    for c in deck['cells']:
        walk(c['geom'], False)
    kinds = {s['k'] for s in deck['surfs']}
    if kinds & {'rpp', 'box', 'rcc', 'sph', 'rhp', 'hex', 'rec', 'trc', 'ell', 'wed', 'arb'}:
        feats.add('macrobody')
    if any(c.get('kw_front') or c.get('kw_back') for c in deck['cells']):
        feats.add('irrelevant_kw')
    if deck.get('cardorder'):
        feats.add('card_order')
    if deck.get('plusspell'):
        feats.add('plus_sense')
    return sorted(feats)


def generate(chk, thorough, seed, nsim_quick=1200, nsim_thorough=12000):
    decks = []
    try:
        decks += deckrun.gen_decks(chk, 'GenBool', {'MaxLeaves': 1, 'MaxWraps': 0, 'MaxCells': 2})
        chk.extra['exhaustive_part'] = 'all 2-cell decks whose first cell is a single signed surface/facet'
        if thorough:
            decks += deckrun.gen_decks(chk, 'GenBool', {'MaxLeaves': 2, 'MaxWraps': 1, 'MaxCells': 2},
                                       timeout=1800)
            chk.extra['exhaustive_part'] = 'all 2-cell decks whose first cell has <=2 leaves and <=1 #( )'
        decks += deckrun.gen_decks(chk, 'GenBool', {'MaxLeaves': 4, 'MaxWraps': 1, 'MaxCells': 4},
                                   simulate=nsim_thorough if thorough else nsim_quick, seed=seed + 1)
        decks += deckrun.gen_decks(chk, 'GenBool', {'MaxLeaves': 6, 'MaxWraps': 2, 'MaxCells': 5},
                                   simulate=(nsim_thorough if thorough else nsim_quick) // 2, depth=120,
                                   seed=seed + 2)
    except tlc.TLCFailure as exc:
        chk.machinery(str(exc))
        return []
    uniq = {}
    for d in decks:
        uniq[json.dumps(d, sort_keys=True)] = d
    return [uniq[k] for k in sorted(uniq)]


def run(chk, decks, clauses, seed, opts_of=None, npts=96):
    """Replay decks into the converter, validate with TraceDeck.  Returns
    (records by tid, verdicts by tid, normalised decks by tid)."""
    from .. import numberings
    rng = random.Random(seed)
    jobs, nd = [], {}
    decks = [adeck.normalise(d) for d in decks]
    # same meaning under other cell / surface numbers: every third deck is renumbered, alternately by one of three
    # fixed maps and by a member of the family of Numberings.tla that is admissible for the deck
    renumbered = [i for i, d in enumerate(decks) if i % 3 == 1 and not any(c.get('impsrc') == 'data' for c in d['cells'])]
    family = numberings.choose(chk, decks, [i for i in renumbered if (i // 3) % 2 == 1], random.Random(seed + 1))
    for i, d in enumerate(decks):
        if i in family:
            d = numberings.apply(d, family[i])
        elif i in set(renumbered):
            d = adeck.renumber(d, *adeck.RENUMBERINGS[1 + (i // 6) % 4])
        elif i % 9 == 5:
            d = adeck.lookalike_numbers(d) or d        # surface cards numbered like 1000*cell+surface
        if i % 5 == 0 and not d.get('impcards') and not any(c.get('like') or c.get('impsrc') == 'data' for c in d['cells']):
            d['cells'] = list(d['cells'])          # the cards of a block in another order
            d['surfs'] = list(d['surfs'])
            rng.shuffle(d['cells'])
            rng.shuffle(d['surfs'])
            d['cardorder'] = True
        if i % 7 == 3:
            for c in d['cells']:         # redundant parentheses around runs of operands: same region
                if not c.get('like'):
                    c['parens'] = ('pairs%d' % (1 + (i // 7) % 3)) if c.get('lat') else rng.randrange(1000)
        if i % 11 == 7:
            adeck.pad_cells(d)               # intersections of a dozen operands
        if i % 7 == 6:
            for c in d['cells']:         # the equals sign of a keyword is optional
                c['eqstyle'] = 'blank' if (i // 7) % 2 else 'spaced'
        if i % 7 == 5:
            adeck.imp_datacards(d, i // 7)         # importances on an IMP:N data card, written as reals
        if i % 5 == 1:
            adeck.irrelevant_keywords(d, rng)      # VOL=, NONU=, TMP=, UNC:N= ... on the cell cards
        if i % 6 == 4:
            d['plusspell'] = True                  # '+3': the positive sense written out; '+1.5' for a positive number
        d['pts'] = adeck.grid_points(rng, npts)
        tid = i + 1
        nd[tid] = d
        jobs.append({'tid': tid, 'deck': d, 'opts': opts_of(d, rng) if opts_of else []})
    core.lap('prepare')
    records = conv.run_batch(deckrun.run_deck, jobs, chunksize=16)
    core.lap('converter x%d' % len(jobs))
    good = []
    for rec in records:
        if 'machinery_error' in rec:
            chk.machinery(rec['machinery_error'])
        else:
            good.append(rec)
    try:
        verdicts = deckrun.validate(chk, good, nd, clauses)
    except tlc.TLCFailure as exc:
        chk.machinery(str(exc))
        verdicts = {}
    core.lap('TraceDeck validation')
    return {r['tid']: r for r in good}, verdicts, nd


def report(chk, recs, verdicts, decks, relevant, nontrivial, clauses='owner,valid'):
    """relevant(kind) -> bool selects the failure kinds this property is about."""
    chk.cov['traces_validated_against_impl'] = len(verdicts)
    chk.cov['evaluations'] = len(verdicts)
    nt = 0
    for tid, v in sorted(verdicts.items()):
        deck, rec = decks[tid], recs[tid]
        feats = deck_features(deck)
        if nontrivial(v, deck, feats):
            nt += 1
        for kind, k in v['bad']:
            if kind == 'baddeck':
                chk.machinery('generator produced a deck that is not a partition (tid %d)' % tid)
                continue
            if not relevant(kind):
                continue
            err = rec['err']
            sig = {'clause': kind, 'errtype': err['type'] if err else None,
                   'where': err['where'] if err else None, 'features': '+'.join(feats)}
            if rec.get('deckname'):
                sig['integration_deck'] = rec['deckname']
            if kind == 'vol_syntax_or_count' and rec.get('file'):
                sig['none_operand'] = any('BAD' in v['tk'] for v in rec['file']['vols'])
            case = {'text': rec['text'], 'opts': rec.get('opts', []), 'error': err, 'deck': deck,
                    'integration_deck': rec.get('deckname'),
                    'clauses': clauses,
                    'point2': deck['pts'][k - 1] if k else None, 'cells': [[c['n'], c['imp']] for c in deck['cells']]}
            chk.violation(sig, case)
    chk.cov['distinct_nontrivial'] = nt
    for tid in sorted(recs)[:1] + sorted(recs)[len(recs) // 2:len(recs) // 2 + 2]:
        chk.sample({'deck_text': recs[tid]['text'], 'verdict': verdicts.get(tid)})
