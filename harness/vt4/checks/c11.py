"""C11 - cell expressions denote the Boolean function MCNP assigns to them.

spec -> code: GenExpr.tla enumerates abstract trees (exhaustively up to a
bound, -simulate beyond it) and renders them to token strings; TLC checks the
reference reader and De Morgan elimination of Expr.tla on every one of them.
code -> spec: every token string, in several spacing styles, goes through the
repo's normalize()/grammar/GeomSemantics (get_ast) and pot_complement(); the
recorded trees are validated by TraceExpr.tla on all 2^n sense assignments.
"""
import random
import sys

from .. import conv, core, tlc

STYLES = ('tight', 'loose', 'adjacent')


def tok_text(tok, style):
    kind = tok[0]
    if kind == 'S':
        s = str(tok[1])
        if tok[2]:
            s += '.%d' % tok[2]
        return s
    if kind == 'C':
        return ('# %d' if style == 'loose' else '#%d') % tok[1]
    if kind == '#(':
        return '# (' if style == 'loose' else '#('
    return kind


def spell(toks, style):
    """Join tokens into expression text in one of the spacing styles MCNP accepts."""
    out = []
    prev = None
    for tok in toks:
        text = tok_text(tok, style)
        if prev is None:
            out.append(text)
        else:
            a, b = prev[0], tok[0]
            if style == 'loose':
                sep = '  ' if a == ':' else ' '
            elif a in ('(', '#(') or b == ')' or a == ':' or b == ':':
                sep = ''
            elif style == 'adjacent' and (b in ('C', '#(', '(') and a in ('S', 'C', ')')):
                # '#8#9', '1(2:3)', ')(' : no blank needed, '#' and '(' delimit
                sep = '' if not (b == '(' and a == 'C') else ' '
            else:
                sep = ' '
            out.append(sep + text)
        prev = tok
    return ''.join(out)


def features(toks):
    """Syntactic features of the input (for class signatures of findings)."""
    feats = set()
    depth_stack = []
    for i, tok in enumerate(toks):
        k = tok[0]
        if k == ':' and i + 1 < len(toks) and toks[i + 1][0] in ('C', '#('):
            feats.add('compl_after_colon')
        if k in ('(', '#('):
            depth_stack.append(k)
        elif k == ')':
            depth_stack.pop()
        elif k == 'C' and '#(' in depth_stack:
            feats.add('cellcompl_in_compl')
        if k == 'S' and tok[2] and '#(' in depth_stack:
            feats.add('facet_in_compl')
    return sorted(feats)


def project_tree(t):
    """Live repo tree -> the JSON encoding of Expr.tla."""
    from MIP.geom.semantics import Surface
    if isinstance(t, Surface):
        return ['S', t.surface, t.sub or 0]
    if isinstance(t, bool):
        raise TypeError('bool in tree')
    if isinstance(t, int):
        return ['S', t, 0]
    if isinstance(t, str):
        return ['X', t]
    if type(t).__name__ == 'CellRef':
        return ['R', int(t.cell)]
    if isinstance(t, (tuple, list)):
        if t[0] in ('^', '@'):
            return [t[0], int(t[1])]
        if t[0] in ('*', ':'):
            return [t[0]] + [project_tree(x) for x in t[1:]]
    raise TypeError('cannot project %r' % (t,))


def render_env_text(tree):
    """Text of an environment cell (always tight style, minimal parentheses)."""
    k = tree[0]
    if k == 'S':
        return tok_text(tree, 'tight')
    if k == 'C':
        return '#%d' % tree[1]
    if k == 'N':
        return '#(' + render_env_text(tree[1]) + ')'
    parts = []
    for kid in tree[1:]:
        s = render_env_text(kid)
        if kid[0] in ('*', ':') and (k == '*' and kid[0] == ':'):
            s = '(' + s + ')'
        parts.append(s)
    return (' ' if k == '*' else ':').join(parts)


def run_one(job):
    """Worker: the real get_ast + pot_complement on one expression string."""
    conv._setup()
    from MIP.geom.parsegeom import get_ast
    from t4_geom_convert.Kernel.Volume.CellConversion import CellConversion
    from t4_geom_convert.Kernel.Volume.CellMCNP import CellMCNP
    tid, text, env = job
    rec = {'tid': tid, 'result': 'ok', 'ast': ['ERR'], 'post': ['ERR'], 'err': None}
    try:
        cells = {}
        for n, etext in env:
            cells[n] = CellMCNP('0', None, get_ast(etext), 1.0, 0, None, (), None, [])
        cells[1] = CellMCNP('0', None, get_ast(text), 1.0, 0, None, (), None, [])
        rec['ast'] = project_tree(cells[1].geometry)
        cc = CellConversion(1000, 1000, {}, {}, {}, cells)
        post = cc.pot_complement(cells[1].geometry)
        rec['post'] = project_tree(post)
    except Exception as exc:   # pylint: disable=broad-except
        rec['result'] = 'error'
        rec['err'] = conv.classify_exception(exc)
    return rec


def replay_case(chk, case):
    import shutil
    env_trees = [[10, ['*', ['S', -1, 0], ['S', 2, 0]]], [11, [':', ['C', 10], ['S', 3, 1]]]]
    env_text = [(n, render_env_text(t)) for n, t in env_trees]
    rec = run_one((1, case['text'], env_text))
    trace = {'tid': 1, 'env': [{'n': n, 'geom': t} for n, t in env_trees], 'tree': case['tree'],
             'ast': rec['ast'], 'post': rec['post'], 'result': rec['result']}
    sd = tlc.scratch_dir('c11r')
    core.write_blocks(sd, [trace])
    val = tlc.run('TraceExpr', 'INIT Init\nNEXT Next\nCHECK_DEADLOCK FALSE\n', env={'TRACE_DIR': sd}, workers=4)
    shutil.rmtree(sd, ignore_errors=True)
    bad = [b['bad'] for b in core.collect_blocks(val) if b['bad']]
    print('text:', case['text'], '\nparsed:', rec['ast'], '\ncomplement-free:', rec['post'], '\nerror:', rec['err'])
    print('verdict from TraceExpr.tla:', bad or 'ok')
    return bool(bad)


def main():
    from .. import replay
    replay.maybe_replay('C11')
    chk = core.Check('C11')
    rng = random.Random(chk.seed)
    thorough = chk.tier == 'thorough'
    cfg = ('INIT Init\nNEXT Next\nCONSTANTS MaxLeaves = %d\n MaxWraps = %d\n'
           'INVARIANT ReaderAgrees\nINVARIANT DeMorganSound\nCHECK_DEADLOCK FALSE\n')
    core.lap('start')
    try:
        gen = tlc.run('GenExpr', cfg % (3, 1), workers=16, timeout=900)
        chk.add_tlc(gen)
        if gen['violation']:
            chk.violation({'clause': 'design:' + gen['violation']},
                          {'what': 'Expr.tla design invariant violated', 'tlc': tlc._tail(gen['stdout'], 40)})
        recs = tlc.printed_json(gen['stdout'])
        exhaustive_bound = 'all trees with <=3 leaves, <=1 #( ) wrapper, 8 leaf kinds'
        if thorough:
            sim = tlc.run('GenExpr', cfg % (5, 2), workers=16, simulate=4000, depth=14,
                          seed=chk.seed + 1, timeout=1500)
            chk.add_tlc(sim)
            recs += tlc.printed_json(sim['stdout'])
        else:
            sim = tlc.run('GenExpr', cfg % (5, 2), workers=16, simulate=400, depth=14,
                          seed=chk.seed + 1, timeout=600)
            chk.add_tlc(sim)
            recs += tlc.printed_json(sim['stdout'])
    except tlc.TLCFailure as exc:
        chk.machinery(str(exc))
        return chk.finish()
    core.lap('generators')
    # distinct records, deterministic order
    uniq = {}
    for r in recs:
        uniq[repr((r['toks'],))] = r
    recs = [uniq[k] for k in sorted(uniq)]
    if not recs:
        chk.machinery('generator produced no expression')
        return chk.finish()
    env_trees = [[10, ['*', ['S', -1, 0], ['S', 2, 0]]], [11, [':', ['C', 10], ['S', 3, 1]]]]
    env_text = [(n, render_env_text(t)) for n, t in env_trees]
    env_json = [{'n': n, 'geom': t} for n, t in env_trees]
    jobs, meta = [], {}
    tid = 0
    for r in recs:
        styles = STYLES if thorough else ((STYLES[0], rng.choice(STYLES[1:])) if rng.random() < 0.4 else (STYLES[0],))
        seen_text = set()
        for st in styles:
            text = spell(r['toks'], st)
            if text in seen_text:
                continue
            seen_text.add(text)
            tid += 1
            jobs.append((tid, text, env_text))
            meta[tid] = {'text': text, 'style': st, 'tree': r['tree'], 'toks': r['toks']}
    core.lap('prepare jobs')
    results = conv.run_batch(run_one, jobs, chunksize=256)
    core.lap('real front end x%d' % len(jobs))
    traces = []
    errs = {}
    for rec in results:
        if 'machinery_error' in rec:
            chk.machinery(rec['machinery_error'])
            continue
        m = meta[rec['tid']]
        traces.append({'tid': rec['tid'], 'env': env_json, 'tree': m['tree'], 'ast': rec['ast'],
                       'post': rec['post'], 'result': rec['result']})
        if rec['err']:
            errs[rec['tid']] = rec['err']
    sd = tlc.scratch_dir('c11')
    core.write_blocks(sd, traces)
    try:
        val = tlc.run('TraceExpr', 'INIT Init\nNEXT Next\nCHECK_DEADLOCK FALSE\n',
                      env={'TRACE_DIR': sd}, workers=16, timeout=1500)
    except tlc.TLCFailure as exc:
        chk.machinery(str(exc))
        return chk.finish()
    finally:
        import shutil
        shutil.rmtree(sd, ignore_errors=True)
    core.lap('TraceExpr validation')
    blocks = core.collect_blocks(val)
    nval = sum(b['n'] for b in blocks)
    if nval != len(traces):
        chk.machinery('TraceExpr validated %d of %d traces' % (nval, len(traces)))
    chk.cov['traces_validated_against_impl'] = nval
    chk.cov['evaluations'] = len(traces)
    chk.cov['distinct_nontrivial'] = sum(b['nontrivial'] for b in blocks)
    chk.cov['states'] += val['distinct']
    chk.cov['transitions'] += val['generated']
    chk.extra['exhaustive_part'] = exhaustive_bound
    chk.extra['exhaustive'] = False
    chk.extra['rule'] = ('distinct = distinct expression strings; non-trivial = the tree has two '
                         'different operators among {*, :, #} and its truth table is not constant '
                         '(counted by TraceExpr.tla)')
    for b in blocks:
        for tid_, verdict in b['bad']:
            m = meta[tid_]
            err = errs.get(tid_)
            sig = {'clause': verdict, 'errtype': err['type'] if err else None,
                   'where': err['where'] if err else None, 'features': '+'.join(features(m['toks']))}
            chk.violation(sig, {'text': m['text'], 'style': m['style'], 'tree': m['tree'], 'toks': m['toks'],
                                'error': err, 'env': env_text})
    for t in traces[:2] + traces[len(traces) // 2:len(traces) // 2 + 1]:
        chk.sample({'text': meta[t['tid']]['text'], 'tree': t['tree'], 'post': t['post']})
    chk.assumptions += [
        'PEG shim interprets the repo grammar text as TatSu >=5.6 would (DESIGN.md 2.1)',
        'spacing styles tight/loose/adjacent are accepted by MCNP (integration decks hash_no_space, chars_spaces_hash, spaces)',
        'bounded: exhaustive for <=3 leaves and one #( ) wrapper over 8 leaf kinds; sampled up to 5 leaves',
    ]
    return chk.finish()


if __name__ == '__main__':
    sys.exit(main())
