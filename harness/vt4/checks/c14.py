"""C14 - output does not depend on MCNP-insignificant formatting of the deck.

Cards.tla is a line-level machine: a reference reader of deck text (comment
lines, 5-blank and '&' continuation, '$' comments, 8-column tab stops, message
block, case, nR) and rewrite actions (case, blanks/tabs, both kinds of
continuation, comment lines, in-line comments, message block, number spellings,
repeat shorthand).  TLC checks that every rewrite preserves the reference
reading (SameMeaning) and emits the explored texts; each is read by the real
get_cards()/Card.content() and converted; TraceCards.tla compares segmentation
and outputs with the seed's.
"""
import hashlib
import json
import os
import random
import shutil
import sys
import tempfile

from .. import cardtext, conv, core, t4file, tlc

SEED_A = """seed deck a
1 1 -2.7 -1 2 imp:n=1
2 2 0.05 -1 -2 imp:n=1
3 1 -2.7 1 -3 imp:n=1
4 0 3 #5 imp:n=0
5 like 1 but rho -1.5 trcl=( 20 0.5 0 )

1 so 3
2 7 px 0.5
3 s 0 0 0 6

tr7 1 0 0 0 1 0 -1 0 0 0 0 1
m1 13027 1 8016 0.5
m2 1001 2 8016 1
"""
SEED_B = """seed deck b
1 0 -1 fill=1 ( 2 0 0.25 )
2 0 1 -2 fill=1
3 like 2 but *trcl=( 0 0 1.5 0 90 90 90 0 90 90 90 0 )
4 0 2 #3
11 1 -2.7 -11 u=1
12 2 -1.5 11 u=1

1 so 2
2 so 5
11 px 0.25

m1 13027 1
m2 8016 1
imp:n 2 1 2 0 1 2
"""
SEED_C = """seed deck c
1 0 -1 fill=1 (1)
2 0 #(-1:2)
3 0 2
10 1 -2.7 -11 12 -13 14 fill=-1:1 0:1 0:0 2 2 2 3 3 3 lat=1 u=1
21 2 -1.5 -21 u=2
22 0 21 u=2
31 1 -2.7 -5.1 u=3
32 0 #31 u=3

1 rpp -4 4 -3 3 -2 2
2 so 9
5 box -1 -1 -1 2 0 0 0 2 0 0 0 2
11 px 1
12 px -1
13 py 1
14 py -1
21 cz 0.5

*tr1 0.25 0 0 30 60 90 120 30 90 90 90 0
m1 13027 1
m2 8016 1 1001 2
imp:n 1 1 0 1 4r
"""


def respell(block, words, j):
    if block == 0:
        if j >= 1 and words[j - 1] == 'rho':       # LIKE n BUT RHO x ('=' and blank are equivalent)
            return True
        # entries of an inline TRCL / FILL transformation: the words between a lone '(' and a lone ')'
        if '(' in words[:j] and ')' in words[j + 1:] and words[:j].count('(') > words[:j].count(')'):
            return True
        return j == 2 and words[1] != '0' and words[1] != 'like'
    if block == 1:
        k = 2 if words[1][0].isalpha() else 3
        return j >= k
    name = words[0]
    if name.startswith('tr') or name.startswith('*tr'):
        return j >= 1
    if name.startswith('m') and name[1:].isdigit():
        return j >= 2 and j % 2 == 0
    if name.startswith('imp'):
        return j >= 1
    return False


def blocks_text(t4text):
    """(geometry+bc text, canonical composition/geomcomp content) of an output file."""
    t4 = t4file.parse(t4text)
    geom = t4text.split('COMPOSITION')[0]
    if 'BOUNDARY_CONDITION' in t4text:
        geom += t4text[t4text.index('BOUNDARY_CONDITION'):]
    from ..adeck import mcnp_float
    key = {}
    items = []
    if t4['compo'] is not None:
        for it in t4['compo']['items']:
            k = (it['type'], None if it['dens'] is None else mcnp_float(it['dens']), it['nb_atom'],
                 tuple((n, mcnp_float(v)) for n, v in it['iso']), it['name'].split('_')[0])
            key[it['name']] = k
            items.append(k)
    # compositions and associations by CONTENT: two compositions with the same content (one material at one density,
    # spelled '-2.7' on one card and '-2.7e0' on another) are one composition, their volumes one association
    rows = {}
    for row in (t4['geomcomp'] or []):
        k = repr(key.get(row[0], row[0]))
        vols = [v for v in row[1:] if v.lstrip('-').isdigit()]
        rows.setdefault(k, set()).update(vols[1:] if len(vols) > 1 and int(vols[0]) == len(vols) - 1 else vols)
    return geom, repr((sorted(set(map(repr, items))), sorted((k, sorted(v, key=int)) for k, v in rows.items())))


def impl_cards(text):
    """Segmentation by the repo's own reader: tokens of every card, lower-cased."""
    conv._setup()
    from MIP import mip
    tmp = tempfile.mkdtemp(prefix='vt4c_')
    try:
        path = os.path.join(tmp, 'd.imcnp')
        with open(path, 'w') as f:
            f.write(text)
        parser = mip.MIP(path, encoding='utf-8')
        return [c.content().lower().split() for c in parser.cards(blocks='csd', skipcomments=True)]
    finally:
        shutil.rmtree(tmp, ignore_errors=True)


def run_one(job):
    tid, rec, seed_geom, seed_compo = job
    text = cardtext.render(rec['lines'])
    out = {'tid': tid, 'text': text, 'impl': [], 'impl_error': False, 'spelled': [[w.lower() for w in card] for card in rec['spelled']], 'result': 'ok',
           'geom': '', 'compo': '', 'seed_geom': seed_geom, 'seed_compo': seed_compo, 'err': None,
           'last': rec['last'], 'depth': rec['depth']}
    try:
        out['impl'] = impl_cards(text)
    except Exception as exc:   # pylint: disable=broad-except
        out['impl_error'] = True
        out['err'] = conv.classify_exception(exc)
    res = conv.convert(text)
    out['result'] = res['result']
    if res['result'] == 'ok':
        g, c = blocks_text(res['out'])
        out['geom'] = hashlib.sha1(g.encode()).hexdigest()[:16]
        out['compo'] = hashlib.sha1(c.encode()).hexdigest()[:16]
    else:
        out['err'] = res['error']
    return out


def explore(chk, seed_text, name, thorough, seed):
    lines = cardtext.tokenise(seed_text, respell)
    sd = tlc.scratch_dir('c14s')
    path = os.path.join(sd, 'seed.json')
    core.write_json(path, lines)
    recs = []
    try:
        cfg = 'INIT Init\nNEXT Next\nINVARIANT SameMeaning\nCHECK_DEADLOCK FALSE\n'
        res = tlc.run('Cards', cfg, env={'SEED_FILE': path, 'MAXDEPTH': '1'}, workers=16, timeout=1500)
        chk.add_tlc(res)
        if res['violation']:
            chk.violation({'clause': 'design:' + res['violation'], 'seed': name}, {'tlc': tlc._tail(res['stdout'], 40)})
        recs += [r for r in tlc.printed_json(res['stdout']) if isinstance(r, dict) and 'spelled' in r]
        n = (6000 if thorough else 700) if name != 'C' else (2500 if thorough else 250)     # seed C has long cards: every step is dearer
        res = tlc.run('Cards', cfg, env={'SEED_FILE': path, 'MAXDEPTH': '6'}, workers=16, simulate=max(1, n // 16),
                      depth=8, seed=seed, timeout=1500)
        chk.add_tlc(res)
        if res['violation']:
            chk.violation({'clause': 'design:' + res['violation'], 'seed': name}, {'tlc': tlc._tail(res['stdout'], 40)})
        recs += [r for r in tlc.printed_json(res['stdout']) if isinstance(r, dict) and 'spelled' in r]
    finally:
        shutil.rmtree(sd, ignore_errors=True)
    uniq = {json.dumps(r['lines'], sort_keys=True): r for r in recs}
    return [uniq[k] for k in sorted(uniq)]


def main():
    chk = core.Check('C14')
    thorough = chk.tier == 'thorough'
    rng = random.Random(chk.seed)
    core.lap('start')
    jobs, meta = [], {}
    tid = 0
    try:
        for name, text in (('A', SEED_A), ('B', SEED_B), ('C', SEED_C)):
            base = conv.convert(text)
            if base['result'] != 'ok':
                chk.machinery('seed deck %s does not convert: %r' % (name, base['error']))
                return chk.finish()
            g, c = blocks_text(base['out'])
            sg, sc = hashlib.sha1(g.encode()).hexdigest()[:16], hashlib.sha1(c.encode()).hexdigest()[:16]
            recs = explore(chk, text, name, thorough, chk.seed + ord(name))
            if not thorough and len(recs) > 1500:
                d1 = [r for r in recs if r['depth'] == 1]
                rest = [r for r in recs if r['depth'] > 1]
                recs = rng.sample(d1, min(len(d1), 900)) + rng.sample(rest, min(len(rest), 600))
            for r in recs:
                tid += 1
                jobs.append((tid, r, sg, sc))
                meta[tid] = name
    except tlc.TLCFailure as exc:
        chk.machinery(str(exc))
        return chk.finish()
    core.lap('Cards.tla exploration')
    results = conv.run_batch(run_one, jobs, chunksize=8)
    core.lap('reader + converter x%d' % len(jobs))
    good = [r for r in results if 'machinery_error' not in r]
    for r in results:
        if 'machinery_error' in r:
            chk.machinery(r['machinery_error'])
    keep = ('tid', 'impl', 'impl_error', 'spelled', 'result', 'geom', 'compo', 'seed_geom', 'seed_compo')
    sd = tlc.scratch_dir('c14')
    core.write_blocks(sd, [{k: r[k] for k in keep} for r in good])
    try:
        val = tlc.run('TraceCards', 'INIT Init\nNEXT Next\nCHECK_DEADLOCK FALSE\n', env={'TRACE_DIR': sd}, workers=16)
    except tlc.TLCFailure as exc:
        chk.machinery(str(exc))
        return chk.finish()
    finally:
        shutil.rmtree(sd, ignore_errors=True)
    chk.add_tlc(val)
    core.lap('TraceCards validation')
    byid = {r['tid']: r for r in good}
    nval = 0
    for b in core.collect_blocks(val):
        nval += b['n']
        for t, verdict in b['bad']:
            r = byid[t]
            err = r['err']
            sig = {'clause': verdict, 'rewrite': r['last'], 'seed': meta[t], 'errtype': err['type'] if err else None,
                   'where': err['where'] if err else None}
            chk.violation(sig, {'text': r['text'], 'error': err, 'depth': r['depth'], 'impl_cards': r['impl'],
                                'reference_cards': r['spelled']})
    if nval != len(good):
        chk.machinery('TraceCards validated %d of %d' % (nval, len(good)))
    chk.cov['traces_validated_against_impl'] = nval
    chk.cov['evaluations'] = nval
    chk.cov['distinct_nontrivial'] = len(good)
    kinds = {}
    for r in good:
        kinds[r['last']] = kinds.get(r['last'], 0) + 1
    chk.extra['last_rewrite_histogram'] = kinds
    for r in good[:1] + good[len(good) // 2:len(good) // 2 + 2]:
        chk.sample({'rewritten_text': r['text'], 'last_rewrite': r['last'], 'depth': r['depth']})
    chk.extra['rule'] = ('distinct = distinct rewritten texts (every one differs from its seed in at least one line and the '
                         'rewrite touches a card that reaches the output)')
    chk.extra['exhaustive_part'] = 'all single rewrites (depth 1) of the three seed decks; rewrite sequences up to depth 6 sampled'
    chk.extra['exhaustive'] = False
    chk.assumptions += ['three seed decks (TR on a surface, materials, atom and mass densities; universes, FILL with transformation, LIKE-BUT, IMP data card; lattice with a FILL array, macrobodies and a facet, #( ), *TR card in degrees, nR shorthand)',
                        'compositions compared by content (type, numeric density, nuclides and numeric amounts), names canonicalised',
                        'number respellings limited to entries both MCNP and the converter read as reals (densities, surface and TR entries, fractions, importances)']
    return chk.finish()


if __name__ == '__main__':
    sys.exit(main())
