"""Shared driver of the checks built on GenUniv decks (C05, C09, C13)."""
import json
import random

from .. import adeck, conv, core, deckrun, tlc

FLAGS = ['--skip-deduplication', '--always-inline-filling', '--always-inline-filled']


def generate(chk, thorough, seed, nquick=1200, nthorough=12000):
    decks = []
    try:
        cfg = lambda lvl: 'INIT Init\nNEXT Next\nCONSTANTS Lvl = %d\nCHECK_DEADLOCK FALSE\n' % lvl
        n = nthorough if thorough else nquick
        for lvl, share in ((1, 0.5), (2, 0.5)):
            res = tlc.run('GenUniv', cfg(lvl), workers=16, simulate=max(1, int(n * share) // 16), depth=8,
                          seed=seed + lvl, timeout=1500)
            chk.add_tlc(res)
            decks += [d for d in tlc.printed_json(res['stdout']) if isinstance(d, dict) and 'cells' in d]
    except tlc.TLCFailure as exc:
        chk.machinery(str(exc))
        return []
    uniq = {json.dumps(d, sort_keys=True): d for d in decks}
    return [uniq[k] for k in sorted(uniq)]


def features(deck):
    f = set()
    cells = {c['n']: c for c in deck['cells']}
    fills = [c for c in deck['cells'] if c['fill']]
    if any(c['hasftr'] and (c['ftr']['m'] != adeck.IDM or c['ftr']['o'] != [0, 0, 0]) for c in fills):
        f.add('filltr')
    if any(c['hasftr'] and c['ftr']['m'] != adeck.IDM for c in fills):
        f.add('fillrot')
    if any(c['hastrcl'] and not c['hasftr'] for c in fills):
        f.add('fill_follows_trcl')
    if any(c['hastrcl'] and c['hasftr'] for c in fills):
        f.add('trcl_and_filltr')
    used = [c['fill'] for c in fills]
    if len(used) != len(set(used)):
        f.add('reuse')
    if any(c['fill'] and c['u'] for c in deck['cells']):
        f.add('nested')
    if any(c['hastrcl'] and c['u'] for c in deck['cells']):
        f.add('filler_trcl')
    if any(c.get('negu') for c in deck['cells']):
        f.add('negative_u')
    if any(c.get('kw_front') or c.get('kw_back') for c in deck['cells']):
        f.add('irrelevant_kw')
    if any(c.get('kwshuffle') is not None for c in deck['cells']):
        f.add('keyword_order')
    if deck.get('cardorder'):
        f.add('card_order')
    if any(c.get('eqstyle') for c in deck['cells']):
        f.add('optional_equals_sign')
    if deck.get('starwide'):
        f.add('star_angles_beyond_180')
    if deck.get('padded'):
        f.add('dozen_operands')
    if deck.get('tr6'):
        f.add('six_entry_matrices')
    if any(c.get('parens') is not None for c in deck['cells']):
        f.add('redundant_parentheses')
    if any(c.get('impsrc') == 'data' for c in deck['cells']):
        f.add('imp_datacard_reals')
    return sorted(f)


def run(chk, decks, clauses, seed, optsets, npts=110, decorate=None, lo=-11, hi=11, moved_every=0, unit_every=0):
    """Each deck is converted under every option set of optsets(deck, rng)."""
    from .. import numberings
    rng = random.Random(seed)
    jobs, nd, meta = [], {}, {}
    tid = 0
    decks = [adeck.normalise(d) for d in decks]
    renumbered = [i for i, d in enumerate(decks) if i % 3 == 1 and not d.get('norenumber') and not any(c.get('like') for c in d['cells'])]
    family = numberings.choose(chk, decks, [i for i in renumbered if (i // 3) % 2 == 1], random.Random(seed + 1))
    for i, d in enumerate(decks):
        if i in family:
            d = numberings.apply(d, family[i])          # a member of the family of Numberings.tla admissible for the deck
        elif i in set(renumbered):
            d = adeck.renumber(d, *adeck.RENUMBERINGS[1 + (i // 6) % 4])
        elif i % 9 == 5:
            d = adeck.lookalike_numbers(d) or d        # surface cards numbered like 1000*cell+surface
        if i % 4 == 2:
            d['plusspell'] = True        # '+3' is a valid MCNP number
        if i % 5 == 0 and not d.get('impcards') and not any(c.get('like') or c.get('impsrc') == 'data' for c in d['cells']):
            # the cards of a block in another order (cells of one universe no longer on consecutive cards,
            # surface numbers not increasing down the block)
            d['cells'] = list(d['cells'])
            d['surfs'] = list(d['surfs'])
            rng.shuffle(d['cells'])
            rng.shuffle(d['surfs'])
            d['cardorder'] = True
        if i % 7 == 3:
            for c in d['cells']:         # redundant parentheses around runs of operands: same region
                if not c.get('like'):
                    c['parens'] = ('pairs%d' % (1 + (i // 7) % 3)) if c.get('lat') else rng.randrange(1000)
        if i % 7 == 2:
            d['starwide'] = True         # starred forms with angles beyond 180 degrees (270 for 90, -180 for 180, 360 - a)
        if i % 7 == 1:
            d['tr6'] = True              # rotation matrices with six entries (two rows; the third is implied)
            for c in d['cells']:
                for key in ('ftrspell', 'trclspell'):
                    if c.get(key) in ('12', 'star'):
                        c[key] = {'12': '6', 'star': 'star6'}[c[key]]
        if i % 11 == 7:
            adeck.pad_cells(d)               # intersections of a dozen operands
        if i % 7 == 6:
            for c in d['cells']:         # the equals sign of a keyword is optional
                c['eqstyle'] = 'blank' if (i // 7) % 2 else 'spaced'
        if i % 7 == 5:
            adeck.imp_datacards(d, i // 7)         # importances on an IMP:N data card, written as reals
        if i % 5 == 1:
            adeck.irrelevant_keywords(d, rng)      # VOL=, NONU=, TMP=, UNC:N= ... on the cell cards
        if i % 5 == 2:
            for c in d['cells']:         # the keywords of a cell card in another order
                if not c.get('like'):
                    c['kwshuffle'] = rng.randrange(1000)
        if i % 5 == 4:
            for c in d['cells']:         # FILL arrays with the nR shorthand
                if c['lat']:
                    c['arrayshort'] = True
        if i % 5 == 3:
            for c in d['cells']:         # U=-n: same universe, "not truncated by the container" hint
                if c['u'] and not c.get('like'):
                    c['negu'] = True
        if decorate:
            decorate(d, rng)
        if not d.get('pts_fixed'):
            d['pts'] = adeck.grid_points(rng, npts, lo, hi)
        for opts in optsets(d, rng):
            tid += 1
            nd[tid] = d
            meta[tid] = {'deck_index': i, 'opts': opts}
            jobs.append({'tid': tid, 'deck': d, 'opts': opts, 'keep_parsed': False})
        if moved_every and i % moved_every == 0:
            # covariance: the whole world (every frame) moved by a general rigid motion; TLC keeps the exact deck
            phi = adeck.PHIS[(i // moved_every) % len(adeck.PHIS)]
            mv = adeck.moved_world(d, phi)
            if mv is not None:
                tid += 1
                nd[tid] = d
                opts = optsets(d, rng)[0]
                meta[tid] = {'deck_index': i, 'opts': opts, 'moved': True}
                jobs.append({'tid': tid, 'deck': d, 'opts': opts, 'keep_parsed': False, 'text': adeck.concretise(mv),
                             'real_points': adeck.moved_points(d['pts'], phi)})
                chk.extra['moved_world_decks'] = chk.extra.get('moved_world_decks', 0) + 1
        if unit_every and i % unit_every == 1:
            # another unit of length: the converter reads the text in units of 1e-3 / 400, TLC keeps the exact deck
            res = adeck.unit_change(d, [0.001, 400.0][(i // unit_every) % 2])
            if res is not None:
                tid += 1
                nd[tid] = d
                opts = optsets(d, rng)[0]
                meta[tid] = {'deck_index': i, 'opts': opts, 'moved': True, 'unit': True}
                jobs.append({'tid': tid, 'deck': d, 'opts': opts, 'keep_parsed': False, 'text': adeck.concretise(res[0]),
                             'real_points': res[1]})
                chk.extra['unit_changed_decks'] = chk.extra.get('unit_changed_decks', 0) + 1
    core.lap('prepare')
    records = conv.run_batch(deckrun.run_deck, jobs, chunksize=8)
    core.lap('converter x%d' % len(jobs))
    good = []
    for rec in records:
        if 'machinery_error' in rec:
            chk.machinery(rec['machinery_error'])
        else:
            good.append(rec)
    try:
        verdicts = deckrun.validate(chk, good, nd, clauses)
    except tlc.TLCFailure as exc:
        chk.machinery(str(exc))
        verdicts = {}
    core.lap('TraceDeck validation')
    return {r['tid']: r for r in good}, verdicts, nd, meta
