"""C05 - universes and FILL: points are located through the hierarchy.

GenUniv.tla behaviours (nesting to depth 3, reuse of a universe in two
containers, FILL transformations by number / inline / starred, FILL without
transformation following the container's TRCL, TRCL and FILL transformation
together, a filler cell with its own TRCL) are converted under sampled inline /
de-duplication options; TraceDeck.tla locates every probe point by carrying it
DOWN the hierarchy (McnpSem.Locate) and compares owner and (filler, container)
provenance with the written file.
"""
import sys

from .. import core, designcheck, pipeline, tlc
from . import common_univ

KINDS = {'spurious', 'unowned', 'multi', 'wrongid', 'wrongprov', 'crash'}


def optsets(deck, rng):
    flags = [f for f in common_univ.FLAGS if rng.random() < 0.4]
    return [flags]


def paramcard_decks(chk, decks):
    """The same universe trees with U and FILL given as DATA cards (one entry per cell), which MCNP accepts and the
    converter does not implement: the run must either convert the deck correctly or refuse it with a diagnostic -
    never finish with the universes ignored (C05 read together with C17: a refusal writes no wrong volume)."""
    import random
    from .. import adeck, conv, deckrun
    rng = random.Random(chk.seed + 55)
    jobs, nd = [], {}
    for d in decks:
        d = adeck.normalise(d)
        if any(c['hasftr'] or c['lat'] or c.get('like') for c in d['cells']) or not any(c['fill'] for c in d['cells']):
            continue
        d['paramcards'] = True
        d['pts'] = adeck.grid_points(rng, 60, -11, 11)
        tid = len(jobs) + 1
        nd[tid] = d
        jobs.append({'tid': tid, 'deck': d, 'opts': []})
        if len(jobs) >= (400 if chk.tier == 'thorough' else 60):
            break
    if not jobs:
        return
    records = [r for r in conv.run_batch(deckrun.run_deck, jobs, chunksize=8)]
    good = []
    nrefused = 0
    for r in records:
        if 'machinery_error' in r:
            chk.machinery(r['machinery_error'])
        elif r['result'] != 'ok':
            if r['err'] and r['err']['diag']:
                nrefused += 1
            else:
                chk.violation({'clause': 'incidental_error', 'errtype': r['err']['type'] if r['err'] else None,
                               'features': 'paramcards', 'where': r['err']['where'] if r['err'] else None, 'moved': False,
                               'opts': ''}, {'text': r['text'], 'error': r['err'], 'deck': nd[r['tid']], 'clauses': 'owner'})
        else:
            good.append(r)
    if good:
        try:
            verdicts = deckrun.validate(chk, good, nd, 'owner')
        except tlc.TLCFailure as exc:
            chk.machinery(str(exc))
            verdicts = {}
        byid = {r['tid']: r for r in good}
        for tid, v in sorted(verdicts.items()):
            for kind, k in v['bad']:
                if kind in KINDS:
                    chk.violation({'clause': kind, 'errtype': None, 'where': None, 'features': 'paramcards', 'moved': False,
                                   'opts': ''},
                                  {'text': byid[tid]['text'], 'opts': [], 'deck': nd[tid], 'clauses': 'owner',
                                   'point2': nd[tid]['pts'][k - 1] if k else None})
        chk.cov['traces_validated_against_impl'] += len(verdicts)
    chk.extra['paramcard_decks'] = {'run': len(jobs), 'refused_with_diagnostic': nrefused, 'converted': len(good)}


def main():
    from .. import replay
    replay.maybe_replay('C05')
    chk = core.Check('C05')
    thorough = chk.tier == 'thorough'
    core.lap('start')
    decks = common_univ.generate(chk, thorough, chk.seed)
    core.lap('generators')
    if not decks:
        chk.machinery('no deck generated')
        return chk.finish()
    recs, verdicts, nd, meta = common_univ.run(chk, decks, 'owner', chk.seed, optsets, moved_every=3, unit_every=5)
    chk.cov['traces_validated_against_impl'] = len(verdicts)
    chk.cov['evaluations'] = len(verdicts)
    nt = 0
    for tid, v in sorted(verdicts.items()):
        deck, rec = nd[tid], recs[tid]
        feats = common_univ.features(deck)
        if 'filltr' in feats and v['ndeep'] > 0:
            nt += 1
        for kind, k in v['bad']:
            if kind == 'baddeck':
                chk.machinery('generator produced a deck that is not a partition: %s' % rec['text'])
                continue
            if kind not in KINDS:
                continue
            err = rec['err']
            sig = {'clause': kind, 'errtype': err['type'] if err else None,
                   'where': err['where'] if err else None, 'features': '+'.join(feats), 'moved': bool(meta[tid].get('moved')),
                   'opts': ' '.join(sorted(o.replace('--', '') for o in meta[tid]['opts']))}
            chk.violation(sig, {'text': rec['text'], 'opts': meta[tid]['opts'], 'error': err, 'deck': deck,
                                'clauses': 'owner', 'point2': deck['pts'][k - 1] if k else None})
    chk.cov['distinct_nontrivial'] = nt
    paramcard_decks(chk, decks)
    ids = sorted(recs)
    for tid in ids[:1] + ids[len(ids) // 2:len(ids) // 2 + 2]:
        chk.sample({'deck_text': recs[tid]['text'], 'opts': meta[tid]['opts'], 'verdict': verdicts.get(tid)})
    sub = [nd[t] for t in sorted(nd)][::max(1, len(nd) // 250)]
    pipeline.check_decks(chk, sub, lambda d, r: [[f for f in common_univ.FLAGS if r.random() < 0.4]], chk.seed)
    chk.cov['traces_validated_against_impl'] += chk.extra.get('pipeline_traces', 0)
    # one universe placed twice with different general rotations, under the inlining / de-duplication options
    from . import turned
    turned.run(chk, chk.tier == 'thorough', chk.seed + 5, n=300 if chk.tier == 'thorough' else 30,
               optsets=lambda d, r: [[], [f for f in common_univ.FLAGS if r.random() < 0.5]])
    if chk.tier == 'thorough':
        # FILL development as a design: PipelineD2 model-checked, every behaviour replayed into the code
        try:
            st = designcheck.run_fill(chk, True, chk.seed, configs=designcheck.CONFIGS2[:1])
            chk.extra['fill_design_replay'] = st
            chk.cov['traces_validated_against_impl'] += st['replayed']
        except tlc.TLCFailure as exc:
            chk.machinery(str(exc))
    chk.extra['rule'] = ('distinct = distinct (abstract deck, option set); non-trivial = at least one FILL with a '
                         'non-identity transformation and at least one probe point owned through a filler cell')
    chk.extra['exhaustive'] = False
    chk.assumptions += ['transformations: signed-permutation rotations with integer displacements (exact arithmetic); every third deck also with the whole world (all frames) moved by a general rigid motion (adeck.moved_world): float TR/TRCL/FILL entries, owner of phi(p) = exact owner of p',
                        'DESIGN.md section 4 convention 4 (TRCL/FILL precedence as documented by the converter and its integration decks)',
                        '110 random half-integer probe points of [-5.5,5.5]^3 per deck']
    return chk.finish()


if __name__ == '__main__':
    sys.exit(main())
