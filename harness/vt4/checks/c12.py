"""C12 - exactly the zero-importance cells are left out.

TraceDeck.tla clause `zeroimp`: the NOTE list restricted to level-0 cells is
exactly the set of level-0 cells whose importance is zero for every particle,
no VOLU (and no provenance) exists for them, and (clause `owner`) every probe
point located in any other level-0 cell is owned.
"""
import sys

import json

from .. import core, deckrun, tlc
from . import common_bool


def tok_text(t):
    kind, x = t
    if kind == 'v':
        return str(x)
    if kind == 'r':
        return 'r' if x == 1 else '%dr' % x
    if kind == 'm':
        return '%dm' % x
    return 'i' if x == 1 else '%di' % x


def imp_text(v, den=12):
    """Importance value (in units of 1/den) as MCNP text."""
    return str(v // den) if v % den == 0 else repr(v / den)


def imp_deck(g):
    """GenImp record -> abstract deck (slabs along x, optional universe split by py 0)."""
    k = g['ncell']
    surfs = [{'n': i, 'k': 'px', 'p': [2 * i - k]} for i in range(1, k)]
    if g['withu']:
        surfs.append({'n': 9, 'k': 'py', 'p': [0]})
    cells = []
    for c in g['cells']:
        cell = {'n': c['n'], 'geom': c['geom'], 'u': c['u'], 'fill': c['fill'], 'imp': c['imp']}
        if g['mode'] == 'cell':
            cell['impsrc'] = 'cellmulti'
            cell['imptxt'] = 'imp:n=%s imp:p=%s' % (imp_text(c['impn']), imp_text(c['impp']))
        elif g['mode'] == 'cellmulti':
            cell['impsrc'] = 'cellmulti'
            cell['imptxt'] = 'imp:p=%s imp:n=%s' % (imp_text(c['impp']), imp_text(c['impn']))
        else:
            cell['impsrc'] = 'data'
        cells.append(cell)
    deck = {'cells': cells, 'surfs': surfs, 'impcards': []}
    # plain values are written as integers or, in every third deck, as reals ('1.0', '2.', '0.0'): same numbers
    style = (len(g['tokN']) + g['ncell'] + len(g['tokP'])) % 3
    tiny = (len(g['tokN']) + 2 * g['ncell']) % 4 == 1     # every importance of the card a million million times smaller
    def spell(toks):
        out = [tok_text(t) for t in toks]
        if style == 1:
            out = [w + '.0' if w.isdigit() else w for w in out]
        elif style == 2:
            out = [w + '.' if w.isdigit() else w for w in out]
        if tiny:
            out = [(w + 'e-12' if w.isdigit() and int(w) else (w + ('0e-12' if w.endswith('.') else 'e-12') if w[0].isdigit() and w[-1] not in 'rmiRMI' and float(w) else w)) for w in out]
        return out
    if g['mode'] in ('data1', 'data2'):
        deck['impcards'].append({'par': 'n', 'tokens': spell(g['tokN'])})
    if g['mode'] == 'data2':
        deck['impcards'].append({'par': 'p', 'tokens': spell(g['tokP'])})
    # a mix: every third data-card deck gives some cells an IMP keyword of their own, which then decides for that
    # cell (zero on the card where the data card says non-zero, and the other way round)
    if g['mode'] in ('data1', 'data2') and style == 0 and len(cells) >= 2:
        for k, cell in enumerate(cells):
            if (k + g['ncell']) % 2 == 0:
                new = 0 if cell['imp'] else 2
                cell['impsrc'] = 'cellmulti'
                cell['imptxt'] = 'imp:n=%d' % new if g['mode'] == 'data1' else 'imp:n=%d imp:p=%d' % (new, 0)
                cell['imp'] = new
        deck['mixed'] = True
    # an interior slab written LIKE n BUT TRCL=(2 0 0) (the slab before it, moved by one pitch): a cell card like
    # any other for the IMP data cards - the entry at ITS position is its importance
    if g['mode'] in ('data1', 'data2') and not deck.get('mixed') and g['ncell'] >= 4 and (len(g['tokN']) + g['ncell']) % 2 == 0:
        byn = {c['n']: c for c in cells}
        for i in range(2, g['ncell'] - 1):
            if byn[i]['fill'] == 0 and byn[i + 1]['fill'] == 0:
                byn[i + 1]['like'] = i
                byn[i + 1]['but'] = ['trcl=(2 0 0)']
                deck['likecell'] = True
                break
    deck['feat'] = {'mode': g['mode'], 'withu': g['withu'],
                    'shorthand': any(t[0] != 'v' for t in g['tokN'] + g['tokP']), 'likecell': bool(deck.get('likecell'))}
    return deck


def gen_imp(chk, thorough, seed):
    out = []
    for consts, sim in (({'MaxCells': 2, 'MaxTokens': 2}, None),
                        ({'MaxCells': 5, 'MaxTokens': 6}, 24000 if thorough else 2400)):
        cfg = 'INIT Init\nNEXT Next\nCONSTANTS\n' + ''.join(' %s = %s\n' % kv for kv in consts.items())
        cfg += 'INVARIANT ExpandedLengthOK\nCHECK_DEADLOCK FALSE\n'
        res = tlc.run('GenImp', cfg, workers=16, simulate=None if sim is None else sim // 16, depth=40,
                      seed=seed + 5, timeout=900)
        chk.add_tlc(res)
        if res['violation']:
            chk.violation({'clause': 'design:' + res['violation']}, {'tlc': tlc._tail(res['stdout'], 30)})
        for g in tlc.printed_json(res['stdout']):
            if isinstance(g, dict) and 'tokN' in g:
                out.append(g)
    uniq = {json.dumps(g, sort_keys=True): g for g in out}
    return [imp_deck(uniq[k]) for k in sorted(uniq)]

KINDS = {'note', 'zero_imp_converted', 'zero_imp_provenance', 'unowned', 'spurious', 'crash'}


def main():
    from .. import replay
    replay.maybe_replay('C12')
    chk = core.Check('C12')
    thorough = chk.tier == 'thorough'
    core.lap('start')
    decks = common_bool.generate(chk, thorough, chk.seed + 12, nsim_quick=500, nsim_thorough=5000)
    try:
        decks += gen_imp(chk, thorough, chk.seed)
    except tlc.TLCFailure as exc:
        chk.machinery(str(exc))
    core.lap('generators')
    if not decks:
        chk.machinery('no deck generated')
        return chk.finish()
    recs, verdicts, nd = common_bool.run(chk, decks, 'owner,zeroimp', chk.seed, npts=48)
    def nontrivial(v, deck, feats):
        imps = {c['imp'] != 0 for c in deck['cells'] if c['u'] == 0}
        return imps == {True, False} and deck.get('feat', {}).get('mode', '').startswith('data')
    common_bool.report(chk, recs, verdicts, nd, lambda kind: kind in KINDS, nontrivial, clauses='owner,zeroimp')
    chk.extra['rule'] = ('distinct = distinct abstract decks; non-trivial = the deck has both zero- and '
                         'non-zero-importance level-0 cells and at least one importance comes from a data card')
    chk.extra['exhaustive'] = False
    return chk.finish()


if __name__ == '__main__':
    sys.exit(main())
