"""One universe placed twice by FILL transformations with DIFFERENT general rotations.

Exact deck E (what TLC reads): two disjoint spherical containers centred at c1, c2, both filled with universe 1 by
a pure translation o_i; universe 1 is a priority partition -s1 | s1 -s2 | s1 s2 -s3 | s1 s2 s3 over a palette of
surface cards (torus, cones, cylinders, quadrics, planes, macrobodies) with integer parameters.
Real deck R (what the converter reads): the same containers, the FILL of container i turned about c_i by a general
rotation R_i:  x_main = c_i + R_i (o_i - c_i) + R_i x_aux.  A point p of container i in E is the point
q = c_i + R_i (p - c_i) of container i in R (the spheres are invariant), points outside the containers stay; so the
owner TLC computes for p in E is the owner the written file must give q.  The two placements of one surface differ
only by their rotation - with rotations about the line of centres and equal offsets they even have the same
parameters in their own turned frames (tilted tori, cones and cylinders the de-duplication must keep apart).
"""
import random

from .. import adeck, conv, core, deckrun, tlc

PALETTE = [
    {'k': 'tz', 'p': [0, 0, 0, 2, 1, 1]}, {'k': 'tz', 'p': [1, 0, 0, 2, 1, 1]}, {'k': 'tx', 'p': [0, 0, 0, 2, 1, 1]},
    {'k': 'ty', 'p': [0, 1, 0, 3, 1, 2]},
    {'k': 'kz', 'p': [0, 1, 1]}, {'k': 'kz', 'p': [-1, 1]}, {'k': 'k/x', 'p': [1, 0, 0, 1, -1]},
    {'k': 'c/z', 'p': [1, 0, 1]}, {'k': 'cx', 'p': [2]}, {'k': 'c/y', 'p': [0, 1, 2]},
    {'k': 'sq', 'p': [1, 2, 0, 0, 0, 0, -4, 1, 0, 0]}, {'k': 'gq', 'p': [1, 2, 1, 1, 2, -1, 0, 2, 0, -6]},
    {'k': 'p', 'p': [1, 1, 0, 1]}, {'k': 'px', 'p': [1]}, {'k': 'pz', 'p': [0]},
    {'k': 's', 'p': [1, 0, 0, 2]}, {'k': 'so', 'p': [3]},
    {'k': 'rpp', 'p': [-1, 2, 0, 1, -1, 1]}, {'k': 'rcc', 'p': [0, 0, -1, 0, 0, 3, 1]},
]
# surfaces that reach both containers from a universe origin on the line of centres
BIG = [
    {'k': 'tz', 'p': [0, 0, 0, 6, 2, 2]}, {'k': 'ty', 'p': [0, 0, 0, 6, 1, 2]}, {'k': 'tz', 'p': [0, 0, 1, 5, 2, 1]},
    {'k': 'kz', 'p': [0, 1]}, {'k': 'ky', 'p': [1, 1]}, {'k': 'kz', 'p': [-2, 1, 1]},
    {'k': 'cz', 'p': [6]}, {'k': 'cy', 'p': [5]}, {'k': 'c/z', 'p': [1, 0, 6]},
    {'k': 'p', 'p': [1, 0, 1, 5]}, {'k': 'pz', 'p': [1]}, {'k': 'so', 'p': [6]}, {'k': 's', 'p': [0, 0, 1, 6]},
    {'k': 'sq', 'p': [1, 2, 0, 0, 0, 0, -36, 0, 0, 0]}, {'k': 'rcc', 'p': [-8, 0, 1, 16, 0, 0, 2]},
]
CENTRES = ([-6, 0, 0], [6, 0, 0])
RADIUS = 4
KINDS = {'spurious', 'unowned', 'multi', 'wrongid', 'wrongprov', 'crash'}


def _mat_vec(R, v):
    return [sum(R[r][c] * v[c] for c in range(3)) for r in range(3)]


def build(rng, variant):
    """(exact deck, real deck, point map)."""
    surfs = rng.sample(PALETTE, 3)
    if variant % 2 == 0:
        surfs[0] = rng.choice(PALETTE[:4])          # a torus first
    off = [rng.choice([-1, 0, 1]), rng.choice([-1, 0, 1]), rng.choice([-1, 0, 1])]
    if variant % 3 == 0:
        # one universe ORIGIN for both containers, on the line of centres, rotations about that line: the two
        # placements of a surface have the same parameters in their own turned frames and differ by the rotation alone
        surfs = rng.sample(BIG, 3)
        if variant % 2 == 0:
            surfs[0] = rng.choice(BIG[:3])          # a torus first
        dx = rng.choice([-1, 0, 1])
        rots = [adeck.rotation((1, 0, 0), a) for a in rng.sample([20.0, 35.0, 70.0, 110.0, -40.0], 2)]
        offs = [[dx - CENTRES[0][0], 0, 0], [dx - CENTRES[1][0], 0, 0]]
    elif variant % 3 == 1:
        # rotations about the line of centres, equal offsets
        rots = [adeck.rotation((1, 0, 0), a) for a in rng.sample([20.0, 35.0, 70.0, 110.0, -40.0], 2)]
        offs = [off, off]
    else:
        rots = [r for _, r in rng.sample(adeck.PHIS, 2)]
        offs = [off, [rng.choice([-1, 0, 1]), 0, rng.choice([-1, 0, 1])]]
    S = lambda n: ['S', n, 0]
    ucells = [{'n': 11, 'geom': S(-11), 'u': 1, 'mat': 1},
              {'n': 12, 'geom': ['*', S(11), S(-12)], 'u': 1, 'mat': 2},
              {'n': 13, 'geom': ['*', S(11), S(12), S(-13)], 'u': 1, 'mat': 3},
              {'n': 14, 'geom': ['*', S(11), S(12), S(13)], 'u': 1, 'mat': 0}]
    cards = [dict(s, n=11 + i) for i, s in enumerate(surfs)]
    cont = [{'n': 1, 'k': 's', 'p': CENTRES[0] + [RADIUS]}, {'n': 2, 'k': 's', 'p': CENTRES[1] + [RADIUS]},
            {'n': 3, 'k': 'so', 'p': [20]}]

    def world(trs, spell):
        return [{'n': 1, 'geom': S(-1), 'fill': 1, 'hasftr': True, 'ftr': trs[0], 'ftrspell': spell},
                {'n': 2, 'geom': S(-2), 'fill': 1, 'hasftr': True, 'ftr': trs[1], 'ftrspell': spell},
                {'n': 3, 'geom': ['*', S(1), S(2), S(-3)], 'mat': 0},
                {'n': 4, 'geom': S(3), 'imp': 0}]
    exact_tr = [{'o': [CENTRES[i][k] + offs[i][k] for k in range(3)], 'm': list(adeck.IDM)} for i in range(2)]
    real_tr = []
    for i in range(2):
        o = [CENTRES[i][k] + _mat_vec(rots[i], offs[i])[k] for k in range(3)]
        real_tr.append(adeck._affine_to_tr(o, rots[i]))
    exact = adeck.normalise({'cells': world(exact_tr, '12') + ucells, 'surfs': cont + cards})
    real = adeck.normalise({'cells': world(real_tr, rng.choice(['12', 'star', 'num'])) + [dict(c) for c in ucells],
                            'surfs': cont + cards})
    adeck.simple_materials(exact)
    adeck.simple_materials(real)

    def point_map(pts2):
        out = []
        for P in pts2:
            p = [P[0] / 2.0, P[1] / 2.0, P[2] / 2.0]
            for i in range(2):
                d = [p[k] - CENTRES[i][k] for k in range(3)]
                if sum(x * x for x in d) < RADIUS * RADIUS:
                    q = _mat_vec(rots[i], d)
                    p = [CENTRES[i][k] + q[k] for k in range(3)]
                    break
            out.append(tuple(p))
        return out
    return exact, real, point_map


def run(chk, thorough, seed, optsets=None, n=None, clauses='owner'):
    rng = random.Random(seed + 4321)
    n = n or (600 if thorough else 60)
    jobs, nd, kinds = [], {}, {}
    tid = 0
    for v in range(n):
        exact, real, pmap = build(rng, v)
        # probe points: mostly inside the two containers
        pts = [p for p in adeck.grid_points(rng, 4000, -11, 11)
               if min(sum((p[k] / 2.0 - c[k]) ** 2 for k in range(3)) for c in CENTRES) < RADIUS * RADIUS][:110]
        pts += adeck.grid_points(rng, 10, -11, 11)
        exact['pts'] = pts
        text = adeck.concretise(real)
        for opts in (optsets(exact, rng) if optsets else [[]]):
            tid += 1
            nd[tid] = exact
            kinds[tid] = [s['k'] for s in exact['surfs'][3:]]
            jobs.append({'tid': tid, 'deck': exact, 'opts': opts, 'text': text, 'real_points': pmap(pts)})
    records = conv.run_batch(deckrun.run_deck, jobs, chunksize=8)
    good = []
    for rec in records:
        if 'machinery_error' in rec:
            chk.machinery(rec['machinery_error'])
        else:
            good.append(rec)
    try:
        verdicts = deckrun.validate(chk, good, nd, clauses)
    except tlc.TLCFailure as exc:
        chk.machinery(str(exc))
        return 0
    byid = {r['tid']: r for r in good}
    rp = {j['tid']: j['real_points'] for j in jobs}
    for tid, v in sorted(verdicts.items()):
        rec = byid[tid]
        for kind, k in v['bad']:
            if kind == 'baddeck':
                chk.machinery('turned: generated deck is not a partition: %s' % rec['text'])
                continue
            if kind not in KINDS:
                continue
            err = rec['err']
            chk.violation({'clause': kind, 'family': 'universe_placed_twice_with_different_rotations',
                           'surfaces': '+'.join(kinds[tid]), 'opts': ' '.join(rec['opts']),
                           'errtype': err['type'] if err else None},
                          {'text': rec['text'], 'opts': rec['opts'], 'error': err, 'deck': nd[tid], 'clauses': clauses,
                           'point2': nd[tid]['pts'][k - 1] if k else None, 'real_points': [list(q) for q in rp[tid]],
                           'note': 'deck = exact twin (translations); text = what the converter read'})
    chk.cov['traces_validated_against_impl'] += len(verdicts)
    chk.extra['universe_placed_twice_with_different_rotations'] = {'decks': n, 'conversions': len(jobs), 'validated': len(verdicts)}
    core.lap('turned containers x%d' % len(jobs))
    return len(verdicts)
