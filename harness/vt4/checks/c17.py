"""C17 - unsupported or malformed input stops the run instead of yielding geometry.

Faults.tla enumerates the fault records (class, site, variant) from the tables
of what MCNP admits; each is injected into the valid base deck of its class and
run through the real entry point, together with the un-injected control.
TraceFault.tla: the control converts, the injected run ends in an error raised
by a `raise` statement of the repo's own sources (a diagnostic), never in a
finished conversion and never in an incidental interpreter error.
"""
import json
import shutil
import sys

from .. import conv, core, faultsites, tlc

SURF_OK = {
    ('px', 1): [1], ('py', 1): [1], ('pz', 1): [1], ('p', 4): [1, 0, 0, 1], ('p', 9): [1, 0, 0, 0, 1, 0, 0, 0, 1],
    ('so', 1): [2], ('s', 4): [0, 0, 0, 2], ('sx', 2): [1, 2], ('sy', 2): [1, 2], ('sz', 2): [1, 2],
    ('cx', 1): [1], ('cy', 1): [1], ('cz', 1): [1], ('c/x', 3): [0, 0, 1], ('c/y', 3): [0, 0, 1], ('c/z', 3): [0, 0, 1],
    ('kx', 2): [0, 1], ('kx', 3): [0, 1, 1], ('ky', 2): [0, 1], ('ky', 3): [0, 1, 1], ('kz', 2): [0, 1], ('kz', 3): [0, 1, 1],
    ('k/x', 4): [0, 0, 0, 1], ('k/x', 5): [0, 0, 0, 1, -1], ('k/y', 4): [0, 0, 0, 1], ('k/y', 5): [0, 0, 0, 1, -1],
    ('k/z', 4): [0, 0, 0, 1], ('k/z', 5): [0, 0, 0, 1, -1],
    ('sq', 10): [1, 1, 1, 0, 0, 0, -1, 0, 0, 0], ('gq', 10): [1, 1, 1, 0, 0, 0, 0, 0, 0, -1],
    ('tx', 6): [0, 0, 0, 3, 1, 1], ('ty', 6): [0, 0, 0, 3, 1, 1], ('tz', 6): [0, 0, 0, 3, 1, 1],
    ('x', 2): [1, 2], ('x', 4): [1, 2, 3, 4], ('y', 2): [1, 2], ('y', 4): [1, 2, 3, 4], ('z', 2): [1, 2], ('z', 4): [1, 2, 3, 4],
}
BODY_OK = {
    ('box', 12): [-1, -1, -1, 2, 0, 0, 0, 2, 0, 0, 0, 2], ('rpp', 6): [-1, 1, -1, 1, -1, 1], ('sph', 4): [0, 0, 0, 1],
    ('rcc', 7): [0, 0, -1, 0, 0, 2, 1], ('rhp', 9): [0, 0, -1, 0, 0, 2, 1, 0, 0],
    ('rhp', 15): [0, 0, -1, 0, 0, 2, 1, 0, 0, 0.5, 0.866, 0, -0.5, 0.866, 0],
    ('hex', 9): [0, 0, -1, 0, 0, 2, 1, 0, 0], ('hex', 15): [0, 0, -1, 0, 0, 2, 1, 0, 0, 0.5, 0.866, 0, -0.5, 0.866, 0],
    ('rec', 10): [0, 0, -1, 0, 0, 2, 2, 0, 0, 1], ('rec', 12): [0, 0, -1, 0, 0, 2, 2, 0, 0, 0, 1, 0],
    ('trc', 8): [0, 0, -1, 0, 0, 2, 2, 1], ('ell', 7): [0, 0, 0, 0, 0, 2, -1], ('wed', 12): [0, 0, 0, 2, 0, 0, 0, 2, 0, 0, 0, 2],
    ('arb', 30): [0, 0, 0, 3, 0, 0, 0, 3, 0, 0, 0, 3] + [0] * 12 + [123, 124, 134, 234, 0, 0],
}
NFACETS = {'box': 6, 'rpp': 6, 'sph': 1, 'rcc': 3, 'rhp': 8, 'hex': 8, 'rec': 3, 'trc': 3, 'ell': 1, 'wed': 5}


def fmt(vals):
    return ' '.join(repr(v) if isinstance(v, float) else str(v) for v in vals)


def surf_deck(card):
    return 'fault deck\n1 0 -1 imp:n=1\n2 0 1 imp:n=0\n\n1 so 5\n2 %s\n\n' % card


def nearest(table, key, n):
    cands = sorted((abs(c - n), c) for (k, c) in table if k == key)
    return cands[0][1]


LAT_DECK = ('lattice fault deck\n1 0 -1 fill=1 imp:n=1\n2 0 1 imp:n=0\n10 0 -11 12 -13 14 lat=1 u=1 %s imp:n=1\n'
            '21 0 -21 u=7 imp:n=1\n22 0 21 u=7 imp:n=1\n31 0 -21 u=8 imp:n=1\n32 0 21 u=8 imp:n=1\n\n'
            '1 so 5\n11 px 1\n12 px -1\n13 py 1\n14 py -1\n21 pz 0\n\n')


def build(f):
    """(control_text, control_opts, faulty_text, faulty_opts) for a fault record."""
    cls, site, var = f['class'], f['site'], f['variant']
    if cls == 'surface_count':
        mn = ('c' if site[1:] in ('cx', 'cy', 'cz') else 'k') + '/' + site[-1] if site.startswith('/') else site
        n = int(var)
        okn = nearest(SURF_OK, mn, n)
        ok = SURF_OK[(mn, okn)]
        bad = ok[:n] if n < okn else ok + [1] * (n - okn)
        return surf_deck('%s %s' % (mn, fmt(ok))), [], surf_deck('%s %s' % (mn, fmt(bad))), []
    if cls == 'body_count':
        n = int(var)
        okn = nearest(BODY_OK, site, n)
        ok = BODY_OK[(site, okn)]
        bad = ok[:n] if n < okn else ok + [1] * (n - okn)
        return surf_deck('%s %s' % (site, fmt(ok))), [], surf_deck('%s %s' % (site, fmt(bad))), []
    if cls == 'mnemonic':
        return surf_deck('px 1'), [], surf_deck('%s 1' % var), []
    if cls == 'facet':
        if site == 'so':
            base = 'fault deck\n1 0 -1%s imp:n=1\n2 0 1 imp:n=0\n\n1 so 5\n\n'
            return base % '', [], base % ('.' + var), []
        okn = [n for (k, n) in BODY_OK if k == site][0]
        base = ('fault deck\n1 0 -1 -2.%d imp:n=1\n2 0 #1 imp:n=0\n\n1 so 9\n2 %s %s\n\n')
        body = fmt(BODY_OK[(site, okn)])
        return base % (NFACETS[site], site, body), [], base % (int(var), site, body), []
    if cls == 'tr_m':
        star = site.startswith('star')
        tr = ('1 0 0 0 90 90 90 0 90 90 90 0 %s' if star else '1 0 0 1 0 0 0 1 0 0 0 1 %s')
        st = '*' if star else ''
        if site.endswith('trcard'):
            base = 'fault deck\n1 0 -1 2 imp:n=1\n2 0 #1 imp:n=0\n\n1 so 5\n2 5 px -1\n\n' + st + 'tr5 %s\n'
            return base % (tr % '1'), [], base % (tr % '-1'), []
        if site.endswith('fill_inline'):
            base = ('fault deck\n1 0 -1 ' + st + 'fill=7 (%s) imp:n=1\n2 0 1 imp:n=0\n21 0 -21 u=7 imp:n=1\n22 0 21 u=7 imp:n=1\n\n'
                    '1 so 5\n21 pz 0\n\n')
            return base % (tr % '1'), [], base % (tr % '-1'), []
        base = 'fault deck\n1 0 -1 ' + st + 'trcl=(%s) imp:n=1\n2 0 #1 imp:n=0\n\n1 so 5\n\n'
        return base % (tr % '1'), [], base % (tr % '-1'), []
    if cls == 'lattice_option':
        deck = LAT_DECK % 'fill=7'
        good = ['--lattice', '10,-1:1,0:1']
        bad = {'absent': [], 'other_cell': ['--lattice', '11,-1:1,0:1'], 'too_few_ranges': ['--lattice', '10,-1:1'],
               'too_many_ranges': ['--lattice', '10,-1:1,0:1,0:2']}[var]
        return deck, good, deck, bad
    if cls == 'fill_length':
        ok = 'fill=-1:1 0:0 7 8 7'
        bad = {'one_less': 'fill=-1:1 0:0 7 8', 'one_more': 'fill=-1:1 0:0 7 8 7 8', 'two_more': 'fill=-1:1 0:0 7 8 7 8 7'}[var]
        return LAT_DECK % ok, [], LAT_DECK % bad, []
    if cls == 'imp_length':
        base = ('fault deck\n1 0 -1\n2 0 1 -2\n3 0 2\n\n1 so 2\n2 so 5\n\n%s\n')
        ok = 'imp:n 1 1 0\nimp:p 1 0 0'
        bad = {'second_shorter': 'imp:n 1 1 0\nimp:p 1 0', 'second_longer': 'imp:n 1 1 0\nimp:p 1 0 0 0',
               'shorter_than_cells': 'imp:n 1 1'}[var]
        return base % ok, [], base % bad, []
    if cls == 'mixed_sign':
        base = 'fault deck\n1 1 -2.7 -1 imp:n=1\n2 0 1 imp:n=0\n\n1 so 5\n\nm1 13027 %s\n%s'
        ok = base % ('0.5 8016 0.5', '')
        if var == 'unused_material':
            return ok, [], base % ('0.5 8016 0.5', 'm2 1001 0.5 8016 -0.5\n'), []
        fr = {'+-': '0.5 8016 -0.5', '-+': '-0.5 8016 0.5', '--+': '-0.2 8016 -0.3 1001 0.5', '+-+': '0.2 8016 -0.3 1001 0.5'}[var]
        return ok, [], base % (fr, ''), []
    if cls == 'lattice_argument':
        deck = LAT_DECK % 'fill=7'
        good = ['--lattice', '10,-1:1,0:1']
        arg = {'no_ranges': '10', 'four_ranges': '10,0:1,0:1,0:1,0:1', 'cell_not_int': 'ten,-1:1,0:1',
               'bound_not_int': '10,-1:x,0:1', 'double_colon': '10,-1::1,0:1', 'empty_range': '10,'}[var]
        return deck, good, deck, ['--lattice', arg]
    raise KeyError(cls)


def run_one(job):
    tid, f = job
    ctext, copts, ftext, fopts = build(f)
    c = conv.convert(ctext, copts)
    r = conv.convert(ftext, fopts)
    return {'tid': tid, 'fault': f, 'control': c['result'], 'control_err': c['error'], 'result': r['result'],
            'diag': bool(r['error'] and r['error']['diag']), 'err': r['error'], 'text': ftext, 'opts': fopts,
            'control_text': ctext}


def every_card(chk):
    """Faults injected at every applicable card (FaultSites.tla) of valid generated decks of every family."""
    import random
    thorough = chk.tier == 'thorough'
    rng = random.Random(chk.seed + 17)
    try:
        decks = faultsites.pool(chk, thorough, chk.seed)
        core.lap('pool of %d decks' % len(decks))
        sites = faultsites.sites_of(chk, decks)
    except tlc.TLCFailure as exc:
        chk.machinery(str(exc))
        return
    core.lap('FaultSites')
    per_deck = 16 if thorough else 5
    jobs, meta = [], {}
    nsites = 0
    for i, d in enumerate(decks):
        fs = sites.get(i + 1, [])
        nsites += len(fs)
        if not fs:
            continue
        # one of every class first, then at random
        rng.shuffle(fs)
        seen, first, rest = set(), [], []
        for f in fs:
            (rest if f['class'] in seen else first).append(f)
            seen.add(f['class'])
        chosen = (first + rest)[:max(per_deck, len(first))]
        jobs.append(((i + 1) * 1000, d, None))
        for j, f in enumerate(chosen):
            tid = (i + 1) * 1000 + j + 1
            meta[tid] = (i, f)
            jobs.append((tid, d, f))
    results = conv.run_batch(faultsites.run_site, jobs, chunksize=8)
    core.lap('converter x%d' % len(jobs))
    byid = {}
    for r in results:
        if 'machinery_error' in r:
            chk.machinery(r['machinery_error'])
        else:
            byid[r['tid']] = r
    recs, bad_controls = [], {}
    for tid, (i, f) in sorted(meta.items()):
        ctl = byid.get((i + 1) * 1000)
        r = byid.get(tid)
        if ctl is None or r is None:
            continue
        if ctl['result'] != 'ok':
            bad_controls[i] = ctl
            continue
        recs.append({'tid': tid, 'control': ctl['result'], 'result': r['result'], 'diag': r['diag'], 'expected': 'error'})
    sd = tlc.scratch_dir('c17')
    core.write_blocks(sd, recs)
    try:
        val = tlc.run('TraceFault', 'INIT Init\nNEXT Next\nCHECK_DEADLOCK FALSE\n', env={'TRACE_DIR': sd}, workers=16)
    except tlc.TLCFailure as exc:
        chk.machinery(str(exc))
        return
    finally:
        shutil.rmtree(sd, ignore_errors=True)
    chk.add_tlc(val)
    nval = 0
    for b in core.collect_blocks(val):
        nval += b['n']
        for tid, verdict in b['bad']:
            i, f = meta[tid]
            r = byid[tid]
            sig = {'clause': verdict, 'class': f['class'], 'site': f['site'], 'variant': f['variant'],
                   'errtype': r['err']['type'] if r['err'] else None, 'family': decks[i]['family'], 'where': 'every_card'}
            chk.violation(sig, {'text': r['text'], 'opts': r['opts'], 'error': r['err'], 'fault': f,
                                'control_text': byid[(i + 1) * 1000]['text']})
    if nval != len(recs):
        chk.machinery('TraceFault validated %d of %d site records' % (nval, len(recs)))
    core.lap('TraceFault')
    chk.cov['traces_validated_against_impl'] += nval
    chk.cov['evaluations'] += nval + len(decks)
    chk.cov['distinct_nontrivial'] += nval
    classes = {}
    for tid, (i, f) in meta.items():
        key = f['class'] + '/' + decks[i]['family']
        classes[key] = classes.get(key, 0) + 1
    chk.extra['every_card'] = {'decks': len(decks), 'sites_defined_by_spec': nsites, 'sites_injected': len(meta),
                               'validated': nval, 'controls_not_converting': len(bad_controls),
                               'injected_per_class_and_family': dict(sorted(classes.items()))}
    if len(bad_controls) > max(3, len(decks) // 20):
        ex = next(iter(bad_controls.values()))
        chk.machinery('%d control decks of the fault pool do not convert, e.g. %r\n%s'
                      % (len(bad_controls), ex['err'], ex['text']))
    for tid in sorted(meta)[:2]:
        if tid in byid:
            chk.sample({'fault': meta[tid][1], 'deck_text': byid[tid]['text'], 'opts': byid[tid]['opts'],
                        'outcome': byid[tid]['result'], 'error': byid[tid]['err']}, limit=5)


def main():
    from .. import replay
    replay.maybe_replay('C17')
    chk = core.Check('C17', level='fault_enumeration')
    core.lap('start')
    try:
        res = tlc.run('Faults', 'INIT Init\nNEXT Next\nCHECK_DEADLOCK FALSE\n', workers=4, timeout=600)
        chk.add_tlc(res)
        faults = [r['fault'] for r in tlc.printed_json(res['stdout']) if isinstance(r, dict) and 'fault' in r]
    except tlc.TLCFailure as exc:
        chk.machinery(str(exc))
        return chk.finish()
    uniq = {json.dumps(f, sort_keys=True): f for f in faults}
    faults = [uniq[k] for k in sorted(uniq)]
    results = conv.run_batch(run_one, [(i + 1, f) for i, f in enumerate(faults)], chunksize=4)
    good = [r for r in results if 'machinery_error' not in r]
    for r in results:
        if 'machinery_error' in r:
            chk.machinery(r['machinery_error'])
    sd = tlc.scratch_dir('c17')
    core.write_blocks(sd, [{'tid': r['tid'], 'control': r['control'], 'result': r['result'], 'diag': r['diag'],
                            'expected': 'error'} for r in good])
    try:
        val = tlc.run('TraceFault', 'INIT Init\nNEXT Next\nCHECK_DEADLOCK FALSE\n', env={'TRACE_DIR': sd}, workers=8)
    except tlc.TLCFailure as exc:
        chk.machinery(str(exc))
        return chk.finish()
    finally:
        shutil.rmtree(sd, ignore_errors=True)
    chk.add_tlc(val)
    byid = {r['tid']: r for r in good}
    nval = 0
    for b in core.collect_blocks(val):
        nval += b['n']
        for tid, verdict in b['bad']:
            r = byid[tid]
            if verdict == 'control_failed':
                chk.machinery('control deck does not convert for %r: %r' % (r['fault'], r['control_err']))
                continue
            f = r['fault']
            sig = {'clause': verdict, 'class': f['class'], 'site': f['site'], 'variant': f['variant'],
                   'errtype': r['err']['type'] if r['err'] else None}
            chk.violation(sig, {'text': r['text'], 'opts': r['opts'], 'error': r['err'], 'fault': f})
    if nval != len(good):
        chk.machinery('TraceFault validated %d of %d' % (nval, len(good)))
    chk.cov['traces_validated_against_impl'] = nval
    chk.cov['evaluations'] = 2 * nval
    chk.cov['distinct_nontrivial'] = sum(1 for r in good if r['control'] == 'ok')
    core.lap('base-deck faults')
    every_card(chk)
    for r in good[:1] + good[len(good) // 2:len(good) // 2 + 2]:
        chk.sample({'fault': r['fault'], 'deck_text': r['text'], 'opts': r['opts'], 'outcome': r['result'], 'error': r['err']})
    chk.extra['rule'] = ('one case per fault record (class, site, variant) of Faults.tla, each with its un-injected control; '
                         'non-trivial = the control converts normally')
    chk.extra['exhaustive'] = True
    chk.extra['fault_classes'] = sorted({f['class'] for f in faults})
    chk.assumptions += ['"an error naming the problem" = the innermost traceback frame is a raise statement in the repo sources (t4_geom_convert/, MIP/) or an argparse error',
                        'admissible entry counts are those of the MCNP manual as tabulated in Faults.tla; the 5-entry torus, accepted by the converter as an extension, is not injected',
                        'one base deck per fault class (the fault is applied at the single card of that kind)']
    return chk.finish()


if __name__ == '__main__':
    sys.exit(main())
