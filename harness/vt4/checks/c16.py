"""C16 - reflecting and white surfaces become boundary conditions on the right surfaces.

GenBC.tla puts * and + flags on up to three surfaces of a small geometry in every
position (a duplicate of an earlier / later surface, an unused surface, a
one-sheet cone = surface collection, a macrobody); each deck is converted with
and without de-duplication.  TraceDeck.tla clause `bc`: exactly one entry of the
right kind per flagged surface bounding a converted cell, designating a SURF of
the file whose polynomial is the flagged surface's; no other entry; a flagged
macrobody is rejected.  The geometry itself is checked by the owner clause.
"""
import json
import random
import sys

from .. import adeck, core, tlc
from . import common_univ

KINDS = {'macrobody_flag_accepted', 'crash', 'entry_missing_or_repeated', 'entry_for_no_flagged_bounding_surface',
         'unowned', 'multi', 'spurious', 'wrongid'}


def main():
    from .. import replay
    replay.maybe_replay('C16')
    chk = core.Check('C16')
    thorough = chk.tier == 'thorough'
    core.lap('start')
    try:
        res = tlc.run('GenBC', 'INIT Init\nNEXT Next\nCHECK_DEADLOCK FALSE\n', workers=16, timeout=1500)
        chk.add_tlc(res)
        decks = [d for d in tlc.printed_json(res['stdout']) if isinstance(d, dict) and 'variant' in d]
    except tlc.TLCFailure as exc:
        chk.machinery(str(exc))
        return chk.finish()
    uniq = {json.dumps(d, sort_keys=True): d for d in decks}
    decks = [uniq[k] for k in sorted(uniq)]
    ntotal = len(decks)
    rng = random.Random(chk.seed)
    if not thorough and len(decks) > 700:
        decks = rng.sample(decks, 700)
    # every third flag assignment also with all surfaces carrying one TR card (the flag must survive the
    # transformation pass; twins with equal cards and equal TR but different flags stay different surfaces)
    import copy
    moved = []
    for i, d in enumerate(decks):
        if i % 3 == 0:
            d2 = copy.deepcopy(d)
            for sf in d2['surfs']:
                sf['tr'] = 7
            d2['trs'] = [{'n': 7, 'o': [1, 0, -1], 'm': [0, 1, 0, -1, 0, 0, 0, 0, 1], 'spell': '12'}]
            d2['variant'] = str(d2.get('variant')) + '+tr'
            moved.append(d2)
    # every third flag assignment also with the cells moved by a TRCL (each cell then has its own copy of every
    # surface it names, flag included) and the remaining cells written with the qualified numbers 1000*cell + surface
    # of those copies
    T = {'o': [1, 0, -1], 'm': [0, 1, 0, -1, 0, 0, 0, 0, 1]}

    def qualified(t, base):
        if t[0] == 'S':
            return ['S', (1 if t[1] > 0 else -1) * (base + abs(t[1])), t[2]]
        return [t[0]] + [qualified(k, base) for k in t[1:]]
    for i, d in enumerate(decks):
        if i % 3 == 1:
            d2 = copy.deepcopy(d)
            byn = {c['n']: c for c in d2['cells']}
            for n in (1, 2):
                byn[n].update(hastrcl=True, trcl=T, trclspell='12')
            if 5 in byn:
                byn[3].update(hastrcl=True, trcl=T, trclspell='12')
                byn[5]['geom'] = qualified(byn[5]['geom'], 3000)
            else:
                byn[3]['geom'] = qualified(byn[3]['geom'], 2000)
            byn[4]['geom'] = qualified(byn[4]['geom'], 1000)
            d2['variant'] = str(d2.get('variant')) + '+trcl'
            d2['norenumber'] = True
            moved.append(d2)
    decks = decks + moved
    core.lap('generator')
    recs, verdicts, nd, meta = common_univ.run(
        chk, decks, 'owner,bc', chk.seed, lambda d, r: [[], ['--skip-deduplication'],
                                                   # the other blocks left out: the boundary conditions are still due
                                                   r.choice([['--skip-geomcomp'], ['--skip-compositions'],
                                                             ['--skip-geomcomp', '--skip-deduplication'],
                                                             ['--skip-compositions', '--skip-geomcomp']])],
        npts=40, lo=-9, hi=9)
    chk.cov['traces_validated_against_impl'] = len(verdicts)
    chk.cov['evaluations'] = len(verdicts)
    nt = 0
    for tid, v in sorted(verdicts.items()):
        deck, rec = nd[tid], recs[tid]
        flagged = {s['n']: s['bc'] for s in deck['surfs'] if s['bc']}
        used = set()
        for c in deck['cells']:
            if c['imp']:
                used |= {abs(x) for x in _leaves(c['geom'])}
        if any(n in used for n in flagged):
            nt += 1
        for kind, k in v['bad']:
            if kind not in KINDS:
                continue
            err = rec['err']
            feats = []
            cards = [(sf['n'], (sf['k'], tuple(sf['p']))) for sf in deck['surfs']]
            # de-duplication keeps the LOWEST number of a group of coincident surfaces: "later" = a duplicate of a
            # lower-numbered card (card order and number order differ in renumbered decks)
            later_dups = {n for n, c in cards if any(c == c2 and n2 < n for n2, c2 in cards)}
            earlier_dups = {n for n, c in cards if any(c == c2 and n2 > n for n2, c2 in cards)}
            bodies = {sf['n'] for sf in deck['surfs'] if sf['k'] == 'rpp'}
            cones = {sf['n'] for sf in deck['surfs'] if sf['k'] == 'kz'}
            if later_dups & set(flagged):
                feats.append('flag_on_later_duplicate')
            if earlier_dups & set(flagged):
                feats.append('flag_on_earlier_duplicate')
            if any(n not in used for n in flagged):
                feats.append('flag_on_unused')
            if cones & set(flagged) & used:
                feats.append('flag_on_cone')
            if bodies & set(flagged):
                feats.append('flag_on_macrobody')
            sig = {'clause': kind, 'errtype': err['type'] if err else None, 'features': '+'.join(feats),
                   'dedup': '--skip-deduplication' not in meta[tid]['opts'], 'surface': k,
                   'surface_is_flagged_and_unused': bool(k in flagged and k not in used),
                   'surface_is_later_duplicate': bool(k in later_dups and k in flagged)}
            chk.violation(sig, {'text': rec['text'], 'opts': meta[tid]['opts'], 'error': err, 'deck': deck,
                                'clauses': 'owner,bc', 'flagged': flagged})
    chk.cov['distinct_nontrivial'] = nt
    ids = sorted(recs)
    for tid in ids[:1] + ids[len(ids) // 2:len(ids) // 2 + 2]:
        chk.sample({'deck_text': recs[tid]['text'], 'opts': meta[tid]['opts'], 'verdict': verdicts.get(tid)})
    chk.extra['rule'] = 'distinct = (flag assignment, variant, dedup setting); non-trivial = at least one flagged surface bounds a converted cell'
    chk.extra['generated_flag_assignments'] = ntotal
    chk.extra['exhaustive'] = bool(thorough)
    return chk.finish()


def _leaves(t):
    if t[0] == 'S':
        return [t[1]]
    if t[0] in ('C', 'R'):
        return []
    out = []
    for k in t[1:]:
        out += _leaves(k)
    return out


if __name__ == '__main__':
    sys.exit(main())
