"""C08 - every written file is structurally valid TRIPOLI-4 input.

T4Sem.FileValid (unique definitions, resolvable references, counts, no surface
on both sides, finite numbers, GEOMCOMP/COMPOSITION/BOUNDARY_CONDITION
relations, acyclic references) is evaluated by TLC on the tokenised output of
every deck of the generator families, under random option combinations, with
materials and boundary flags decorated onto the decks.
"""
import sys

from .. import core
from . import common_bool

OPTS = ['--skip-deduplication', '--always-inline-filling', '--always-inline-filled']
DENS = ['-1.0', '-2.7', '-2.70', '0.05', '5-2', '-1']


def decorate(deck, rng):
    for c in deck['cells']:
        c['mat'] = rng.choice([0, 1, 1, 2])
        c['rhotxt'] = rng.choice(DENS) if c['mat'] else ''
    return deck


def opts_of(deck, rng):
    opts = [o for o in OPTS if rng.random() < 0.35]
    if rng.random() < 0.3:
        opts += ['--max-inline-score', rng.choice(['0', '0.5', '2', '100'])]
    return opts


def main():
    from .. import replay
    replay.maybe_replay('C08')
    chk = core.Check('C08')
    thorough = chk.tier == 'thorough'
    core.lap('start')
    decks = common_bool.generate(chk, thorough, chk.seed + 8)
    core.lap('generators')
    if not decks:
        chk.machinery('no deck generated')
        return chk.finish()
    import random
    rng = random.Random(chk.seed)
    decks = [decorate(dict(d, cells=[dict(c) for c in d['cells']]), rng) for d in decks]
    recs, verdicts, nd = common_bool.run(chk, decks, 'valid', chk.seed, opts_of=opts_of, npts=8)
    bad_kinds = lambda kind: kind != 'baddeck'
    def nontrivial(v, deck, feats):
        rec = recs[v['tid']]
        if rec['file'] is None:
            return False
        toks = [k for vol in rec['file']['vols'] for k in vol['tk']]
        return ('UNION' in toks or 'INTE' in toks) and 'FICTIVE' in toks
    common_bool.report(chk, recs, verdicts, nd, bad_kinds, nontrivial, clauses='valid')
    chk.extra['rule'] = ('distinct = distinct (abstract deck, options); non-trivial = the written file has at least '
                         'one UNION/INTE operator and one FICTIVE volume')
    chk.extra['exhaustive'] = False
    chk.assumptions += ['option sets are sampled per deck (dedup on/off, both inline flags, 4 inline scores)',
                        'generator families: GenBool (more are added as the other checks grow)']
    return chk.finish()


if __name__ == '__main__':
    sys.exit(main())
