"""C08 - every written file is structurally valid TRIPOLI-4 input.

T4Sem.FileValid (unique definitions, resolvable references, counts, no surface
on both sides, finite numbers, GEOMCOMP/COMPOSITION/BOUNDARY_CONDITION
relations, acyclic references) is evaluated by TLC on the tokenised output of
every deck of the generator families, under random option combinations, with
materials and boundary flags decorated onto the decks.
"""
import glob
import os
import random
import sys

from .. import adeck, conv, core, deckrun, tlc
from . import common_bool, common_univ

DATA = os.path.join(conv.REPO, 't4_geom_convert', 'IntegrationTests', 'data')


def integration_jobs(rng, thorough, start_tid):
    """The repo's own integration decks under option sets (foreign decks: structure only)."""
    sys.path.insert(0, conv.REPO)
    try:
        from t4_geom_convert.IntegrationTests.test_mcnp_conversion import get_options
    except Exception:   # pylint: disable=broad-except
        get_options = None
    import pathlib
    jobs, nd = [], {}
    tid = start_tid
    files = sorted(glob.glob(os.path.join(DATA, '*.imcnp')))
    empty = adeck.normalise({'cells': [], 'surfs': []})
    for path in files:
        try:
            base = list(get_options(pathlib.Path(path))[0]) if get_options else []
        except Exception:   # pylint: disable=broad-except
            base = []
        enc = 'latin1' if 'latin1' in path else 'utf-8'
        with open(path, 'rb') as f:
            raw = f.read()
        optsets = [[], ['--skip-deduplication'], ['--max-inline-score', '0'], ['--always-inline-filling', '--always-inline-filled']]
        if not thorough:
            optsets = [optsets[0], rng.choice(optsets[1:])]
        for extra in optsets:
            tid += 1
            nd[tid] = empty
            jobs.append({'tid': tid, 'deck': empty, 'opts': base + extra, 'text': raw.decode(enc),
                         'name': os.path.basename(path), 'encoding': enc})
    return jobs, nd

OPTS = ['--skip-deduplication', '--always-inline-filling', '--always-inline-filled']
DENS = ['-1.0', '-2.7', '-2.70', '0.05', '5-2', '-1']


def decorate(deck, rng):
    for c in deck['cells']:
        c['mat'] = rng.choice([0, 1, 1, 2])
        c['rhotxt'] = rng.choice(DENS) if c['mat'] else ''
    return deck


def opts_of(deck, rng):
    opts = [o for o in OPTS if rng.random() < 0.35]
    if rng.random() < 0.3:
        opts += ['--max-inline-score', rng.choice(['0', '0.5', '2', '100'])]
    return opts


def main():
    from .. import replay
    replay.maybe_replay('C08')
    from .. import replay
    replay.maybe_replay('C08')
    chk = core.Check('C08')
    thorough = chk.tier == 'thorough'
    core.lap('start')
    decks = common_bool.generate(chk, thorough, chk.seed + 8)
    core.lap('generators')
    if not decks:
        chk.machinery('no deck generated')
        return chk.finish()
    rng = random.Random(chk.seed)
    decks = [decorate(dict(d, cells=[dict(c) for c in d['cells']]), rng) for d in decks]
    recs, verdicts, nd = common_bool.run(chk, decks, 'valid', chk.seed, opts_of=opts_of, npts=8)
    # further generator families and the repo's integration decks
    try:
        from . import c06
        more = common_univ.generate(chk, thorough, chk.seed + 80, nquick=700, nthorough=7000)
        more += c06.gen(chk, 'GenLat', thorough, chk.seed + 81, 200, 2000)
        more += c06.gen(chk, 'GenHex', thorough, chk.seed + 82, 120, 1200)
        # LIKE n BUT decks with their density spellings (the composition a volume is assigned to must be written)
        from . import c15
        likes = c15.like_decks(chk, False, chk.seed + 83)
        rng.shuffle(likes)
        more += likes[:1200 if thorough else 150]
    except tlc.TLCFailure as exc:
        chk.machinery(str(exc))
        more = []
    base_tid = max(nd) if nd else 0
    jobs2, nd2 = [], {}
    for i, d in enumerate(more):
        if d.get('predecorated'):
            d = adeck.normalise(d)
        else:
            d = adeck.decorate_materials(adeck.normalise(d), rng, spellings='canonical') if not any(c.get('mat') for c in d['cells']) \
                else adeck.simple_materials(adeck.normalise(d))
        d['pts'] = []
        tid = base_tid + i + 1
        nd2[tid] = d
        opts = adeck.lattice_opts(d) + opts_of(d, rng)
        if rng.random() < 0.35:
            opts += ['--max-inline-score', '0'] if '--max-inline-score' not in opts else []
        jobs2.append({'tid': tid, 'deck': d, 'opts': opts})
    ijobs, ind = integration_jobs(rng, thorough, base_tid + len(more))
    core.lap('more generators')
    recs2 = [r for r in conv.run_batch(deckrun.run_deck, jobs2 + ijobs, chunksize=2)]
    core.lap('converter x%d (families + integration decks)' % len(jobs2 + ijobs))
    for r in recs2:
        if 'machinery_error' in r:
            chk.machinery(r['machinery_error'])
    recs2 = [r for r in recs2 if 'machinery_error' not in r]
    nd2.update(ind)
    names = {j['tid']: j.get('name') for j in ijobs}
    try:
        verdicts2 = deckrun.validate(chk, recs2, nd2, 'valid')
    except tlc.TLCFailure as exc:
        chk.machinery(str(exc))
        verdicts2 = {}
    core.lap('TraceDeck validation 2')
    for r in recs2:
        recs[r['tid']] = r
        r['deckname'] = names.get(r['tid'])
    verdicts.update(verdicts2)
    nd.update(nd2)
    bad_kinds = lambda kind: kind != 'baddeck'
    def nontrivial(v, deck, feats):
        rec = recs[v['tid']]
        if rec['file'] is None:
            return False
        toks = [k for vol in rec['file']['vols'] for k in vol['tk']]
        return ('UNION' in toks or 'INTE' in toks) and 'FICTIVE' in toks
    common_bool.report(chk, recs, verdicts, nd, bad_kinds, nontrivial, clauses='valid')
    chk.extra['rule'] = ('distinct = distinct (abstract deck, options); non-trivial = the written file has at least '
                         'one UNION/INTE operator and one FICTIVE volume')
    chk.extra['exhaustive'] = False
    chk.assumptions += ['option sets are sampled per deck (dedup on/off, both inline flags, 4 inline scores)',
                        'generator families: GenBool, GenUniv (incl. patently empty fillers), GenLat, GenHex, and the repo integration decks under option sets (a crash of an integration deck is reported too)']
    return chk.finish()


if __name__ == '__main__':
    sys.exit(main())
