"""C07 - hexagonal lattices follow MCNP's hexagonal index convention.

GenHex.tla builds LAT=2 unit cells from integer parallelogon hexagons (incl. the
"weird hexagon" of the converter's docstring) in several orientations, with 6 or
8 planes, the three pairs listed in any order and either plane of a pair first
(hence both orders of the last two side planes), and states the convention
declaratively (HexVecsOK, checked by TLC on every deck).  Validation is that of
C06: element lookup by McnpSem.Locate against the written file.
"""
import sys

from . import c06


if __name__ == '__main__':
    sys.exit(c06.main('C07', 'GenHex'))
