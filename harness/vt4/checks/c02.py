"""C02 - elementary surfaces keep their locus and their sense.

GenSurf.tla enumerates surface cards (every mnemonic x a parameter grid that
covers the converter's case splits).  Each card becomes a one-surface deck with
the two probe cells -s and +s; TraceDeck.tla decides (a) the sense witness:
owners of all probe points = McnpSurf.RefSense, and (b) for polynomial cards the
polynomial identity: the emitted SURF has, up to a non-zero factor, exactly the
coefficients of McnpSurf.CardQ (hence the same zero set at ALL points).
"""
import json
import random
import sys

from .. import adeck, conv, core, deckrun, tlc

KINDS = {'spurious', 'unowned', 'multi', 'wrongid', 'locus', 'crash'}


def surf_deck(card):
    return {'surfs': [dict(card, n=1)],
            'cells': [{'n': 1, 'geom': ['S', -1, 0], 'imp': 1}, {'n': 2, 'geom': ['S', 1, 0], 'imp': 1}]}


def unordered_deck(card):
    """The sample surface followed by two more cards whose numbers do not increase down the block (1, 3, 2): numbers
    the converter invents for the parts of a multi-part surface must not land on a card's number."""
    return {'surfs': [dict(card, n=1), {'n': 3, 'k': 'pz', 'p': [40]}, {'n': 2, 'k': 'so', 'p': [30]}],
            'cells': [{'n': 1, 'geom': ['*', ['S', -1, 0], ['S', -2, 0]], 'imp': 1},
                      {'n': 2, 'geom': ['*', ['S', 1, 0], ['S', -2, 0]], 'imp': 1},
                      {'n': 3, 'geom': ['S', 2, 0], 'imp': 0}]}


def gen_cards(chk, lvl, simulate, seed):
    cfg = 'INIT Init\nNEXT Next\nCONSTANTS Lvl = %d\nCHECK_DEADLOCK FALSE\n' % lvl
    res = tlc.run('GenSurf', cfg, workers=16, simulate=None if simulate is None else max(1, simulate // 16),
                  depth=5, seed=seed, timeout=1500)
    chk.add_tlc(res)
    out = {}
    for r in tlc.printed_json(res['stdout']):
        if isinstance(r, dict) and 'card' in r:
            out[json.dumps(r['card'], sort_keys=True)] = r
    return [out[k] for k in sorted(out)]


def main():
    from .. import replay
    replay.maybe_replay('C02')
    chk = core.Check('C02')
    thorough = chk.tier == 'thorough'
    rng = random.Random(chk.seed)
    core.lap('start')
    try:
        recs = gen_cards(chk, 1, None, chk.seed)
        if thorough:
            recs += gen_cards(chk, 2, None, chk.seed)
        else:
            recs += gen_cards(chk, 2, 2400, chk.seed + 1)
    except tlc.TLCFailure as exc:
        chk.machinery(str(exc))
        return chk.finish()
    core.lap('generators')
    uniq = {json.dumps(r['card'], sort_keys=True): r for r in recs}
    recs = [uniq[k] for k in sorted(uniq)]
    pts = adeck.grid_points(rng, 10 ** 6, -7, 7) if thorough else adeck.grid_points(rng, 10 ** 6, -5, 5)
    jobs, nd, meta = [], {}, {}
    for i, r in enumerate(recs):
        d = adeck.normalise(surf_deck(r['card']))
        d['pts'] = pts
        nd[i + 1] = d
        meta[i + 1] = r
        jobs.append({'tid': i + 1, 'deck': d, 'opts': []})
    # every fourth card (all in thorough) also in a deck whose surface numbers do not increase down the block
    base = len(jobs)
    for i, r in enumerate(recs):
        if thorough or i % 4 == 1:
            tid = base + i + 1
            d = adeck.normalise(unordered_deck(r['card']))
            d['pts'] = pts
            nd[tid] = d
            meta[tid] = dict(r, unordered=True)
            jobs.append({'tid': tid, 'deck': d, 'opts': []})
    # covariance: every third card (all in thorough) also under a general rigid motion (general-position code paths)
    base = base + len(recs)
    for i, r in enumerate(recs):
        if thorough or i % 3 == 0:
            tid = base + i + 1
            nd[tid] = nd[i + 1]
            meta[tid] = dict(r, moved=True)
            jobs.append({'tid': tid, 'deck': nd[i + 1], 'opts': [], 'phi': adeck.PHIS[i % len(adeck.PHIS)]})
    # another unit of length (every fifth card; all in thorough): the text scaled by 1e-3 / 400, TLC keeps the exact card
    base = base + len(recs)
    for i, r in enumerate(recs):
        if thorough or i % 5 == 2:
            res = adeck.unit_change(nd[i + 1], [0.001, 400.0][(i // 5) % 2])
            if res is None:
                continue
            tid = base + i + 1
            nd[tid] = nd[i + 1]
            meta[tid] = dict(r, moved=True, unit=True)
            jobs.append({'tid': tid, 'deck': nd[i + 1], 'opts': [], 'text': adeck.concretise(res[0]), 'real_points': res[1]})
    # a GQ equation multiplied by a tiny / a large positive constant (every second GQ card): the same surface
    base = base + len(recs)
    for i, r in enumerate(recs):
        if r['card']['k'] == 'gq' and (thorough or i % 2 == 0):
            tid = base + i + 1
            d = adeck.normalise(surf_deck(dict(r['card'], coefscale=[1e-14, 1e9][(i // 2) % 2])))
            d['pts'] = pts
            nd[tid] = d
            meta[tid] = dict(r, coefscale=True)
            jobs.append({'tid': tid, 'deck': d, 'opts': []})
    records = [x for x in conv.run_batch(deckrun.run_deck, jobs, chunksize=16)]
    core.lap('converter x%d' % len(jobs))
    good = []
    for rec in records:
        if 'machinery_error' in rec:
            chk.machinery(rec['machinery_error'])
        else:
            good.append(rec)
    try:
        verdicts = deckrun.validate(chk, good, nd, 'owner,witness')
    except tlc.TLCFailure as exc:
        chk.machinery(str(exc))
        return chk.finish()
    core.lap('TraceDeck validation')
    byid = {r['tid']: r for r in good}
    chk.cov['traces_validated_against_impl'] = len(verdicts)
    chk.cov['evaluations'] = len(verdicts)
    nt = 0
    for tid, v in sorted(verdicts.items()):
        card, rec = meta[tid]['card'], byid[tid]
        if v['nowners'] >= 2:
            nt += 1
        for kind, k in v['bad']:
            if kind not in KINDS:
                if kind == 'baddeck':
                    chk.machinery('baddeck for card %r' % (card,))
                continue
            err = rec['err']
            if meta[tid].get('unit') and kind == 'crash' and err and err['diag']:
                continue        # another unit of length: a card refused with a diagnostic (an absolute tolerance on tiny
                #                 vectors) is not a converted surface; what IS converted must be right
            nparam = len(card['p'])
            sig = {'clause': kind, 'mnemonic': card['k'], 'nparam': nparam,
                   'errtype': err['type'] if err else None, 'where': err['where'] if err else None,
                   'onesheet': meta[tid]['onesheet'], 'moved': bool(meta[tid].get('moved')),
                   'sq_g_positive': bool(card['k'] == 'sq' and _sq_centre_value(card) > 0),
                   'sq_centre_value_zero': bool(card['k'] == 'sq' and _sq_centre_value(card) == 0),
                   'unit_changed': bool(meta[tid].get('unit')),
                   'first_point_on_axis': bool(card['k'] in 'xyz' and nparam == 4 and card['p'][1] == 0)}
            chk.violation(sig, {'text': rec['text'], 'card': card, 'error': err, 'deck': nd[tid],
                                'clauses': 'owner,witness',
                                'point2': nd[tid]['pts'][k - 1] if kind != 'locus' and k else None})
    chk.cov['distinct_nontrivial'] = nt
    for tid in sorted(byid)[:1] + sorted(byid)[len(byid) // 2:len(byid) // 2 + 2]:
        chk.sample({'card': meta[tid]['card'], 'deck_text': byid[tid]['text'], 'verdict': verdicts.get(tid)})
    chk.extra['rule'] = ('distinct = distinct cards; non-trivial = both sides of the surface own probe points '
                         '(two distinct owners counted by TraceDeck.tla)')
    chk.extra['exhaustive_part'] = 'GenSurf Lvl=1 grid exhaustively' + (' and Lvl=2 grid exhaustively' if thorough else '; Lvl=2 grid sampled by -simulate')
    chk.extra['exhaustive'] = bool(thorough)
    chk.extra['probe_points_per_card'] = len(pts)
    chk.assumptions += ['parameters are integers or small rationals (p/d); real parameters in general position are reached through C04 rotations only',
                        'tori and one-sheet cones are decided on the probe grid, all other cards by exact polynomial identity (rationalisation tolerance 1e-9)',
                        'DESIGN.md section 4 convention 1 (MCNP manual sense rules)']
    return chk.finish()


def _sq_centre_value(card):
    a, b, c, d, e, f, g, x, y, z = card['p']
    return g


if __name__ == '__main__':
    sys.exit(main())
