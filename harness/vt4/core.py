"""Common machinery of the checks: tiers/seeds, violations vs known findings,
replay files, evidence files, exit status."""
import hashlib
import json
import os
import re
import sys
import time

from . import tlc

VERIF = tlc.VERIF
# evidence describes /repo itself: a run against another tree (VT4_REPO = scratch worktree with a seeded change)
# writes its evidence under scratch/ so that the committed files are never overwritten by such a run
EVIDENCE = os.path.join(VERIF, 'evidence') if os.path.abspath(os.environ.get('VT4_REPO', '/repo')) == '/repo' \
    else os.path.join(VERIF, 'scratch', 'evidence_other_tree')
REPLAY = os.path.join(VERIF, 'replay')
FINDINGS = os.path.join(VERIF, 'known_findings.json')


def tier():
    return os.environ.get('VERIF_TIER', 'quick')


def seed():
    try:
        return int(os.environ.get('VERIF_SEED', '0'))
    except ValueError:
        return 0


def load_findings():
    if not os.path.exists(FINDINGS):
        return []
    with open(FINDINGS) as f:
        return json.load(f)['findings']


def _match_value(pat, val):
    if isinstance(pat, dict) and 're' in pat:
        return val is not None and re.search(pat['re'], str(val)) is not None
    if isinstance(pat, list):
        return val in pat
    return pat == val


def match_finding(findings, prop, sig):
    """A violation is a known finding iff an entry with status 'known' for the
    same property matches EVERY key of its signature against `sig`."""
    for f in findings:
        if f.get('status') != 'known' or f['property'] != prop:
            continue
        if all(_match_value(p, sig.get(k)) for k, p in f['signature'].items()):
            return f
    return None


class Check:
    """Bookkeeping for one run of one property's check."""

    def __init__(self, prop, level='model_checking', clean=True):
        self.prop = prop
        self.level = level
        self.tier = tier()
        self.seed = seed()
        self.t0 = time.time()
        self.findings = load_findings()
        self.violations = []      # (sig, case)
        self.known_hits = {}      # finding id -> [count, example]
        self.cov = {'states': 0, 'transitions': 0, 'traces_validated_against_impl': 0,
                    'evaluations': 0, 'distinct_nontrivial': 0, 'samples': []}
        self.assumptions = []
        self.extra = {}
        self.machinery_errors = []
        # replay files of earlier runs of this property are stale
        if clean and os.path.isdir(REPLAY):
            for name in os.listdir(REPLAY):
                if name.startswith(prop + '-'):
                    os.remove(os.path.join(REPLAY, name))

    # -- accounting -------------------------------------------------------
    def add_tlc(self, res):
        self.cov['states'] += res.get('distinct', 0)
        self.cov['transitions'] += res.get('generated', 0)

    def sample(self, case, limit=3):
        if len(self.cov['samples']) < limit:
            self.cov['samples'].append(case)

    def violation(self, sig, case):
        """Report a failing case; `sig` (dict) is matched against known findings."""
        f = match_finding(self.findings, self.prop, sig)
        if f is not None:
            hit = self.known_hits.setdefault(f['id'], [0, case, f])
            hit[0] += 1
            return False
        self.violations.append((sig, case))
        return True

    def machinery(self, msg):
        self.machinery_errors.append(msg)

    # -- the end ----------------------------------------------------------
    def finish(self):
        os.makedirs(EVIDENCE, exist_ok=True)
        wall = time.time() - self.t0
        for fid, (count, _case, f) in sorted(self.known_hits.items()):
            print('KNOWN-FINDING: property=%s %s [%s] (%d cases in this run)'
                  % (self.prop, f['description'], fid, count))
        replay_paths = []
        if self.violations and os.environ.get('VT4_HIST'):
            hist = {}
            for sig, _case in self.violations:
                key = json.dumps({k: v for k, v in sig.items() if k != 'where'}, sort_keys=True, default=str)
                hist[key] = hist.get(key, 0) + 1
            for key, n in sorted(hist.items()):
                print('[hist] %5d %s' % (n, key), file=sys.stderr)
        if self.violations:
            os.makedirs(REPLAY, exist_ok=True)
            seen = set()
            for sig, case in self.violations:
                key = json.dumps(sig, sort_keys=True)
                if key in seen and len(seen) >= 1 and len(replay_paths) >= 5:
                    continue
                seen.add(key)
                if len(replay_paths) >= 20:
                    break
                h = hashlib.sha1(json.dumps(case, sort_keys=True, default=str).encode()).hexdigest()[:10]
                path = os.path.join(REPLAY, '%s-%s.json' % (self.prop, h))
                with open(path, 'w') as fh:
                    json.dump({'property': self.prop, 'sig': sig, 'case': case}, fh, indent=1,
                              default=str)
                replay_paths.append(path)
                print('VIOLATION property=%s replay=%s' % (self.prop, os.path.relpath(path, VERIF)))
                print('  signature: %s' % json.dumps(sig, sort_keys=True, default=str))
        cov = dict(self.cov)
        cov.update(self.extra)
        cov['known_findings_hit'] = {fid: v[0] for fid, v in self.known_hits.items()}
        if not cov['samples']:
            cov['samples'] = ['(no case was explored)']
        ev = {'property_id': self.prop, 'tier': self.tier if self.tier in ('quick', 'thorough') else 'quick',
              'seed': self.seed, 'level': self.level, 'coverage': cov,
              'assumptions': self.assumptions, 'wall_s': round(wall, 2),
              'violations': len(self.violations)}
        if self.machinery_errors:
            ev['coverage']['machinery_errors'] = self.machinery_errors[:5]
        with open(os.path.join(EVIDENCE, '%s.json' % self.prop), 'w') as fh:
            json.dump(ev, fh, indent=1, default=str)
        if self.machinery_errors:
            for m in self.machinery_errors[:5]:
                print('MACHINERY-FAILURE property=%s %s' % (self.prop, m), file=sys.stderr)
            return 2
        if self.violations:
            return 1
        print('OK property=%s tier=%s states=%d traces=%d nontrivial=%d wall=%.1fs'
              % (self.prop, self.tier, cov['states'], cov['traces_validated_against_impl'],
                 cov['distinct_nontrivial'], wall))
        return 0


def write_json(path, obj):
    with open(path, 'w') as f:
        json.dump(obj, f, separators=(',', ':'))


def collect_blocks(res):
    """Block verdict records printed by a Trace*.tla run."""
    return [r for r in tlc.printed_json(res['stdout']) if isinstance(r, dict) and 'block' in r]


def lap(label, _state={'t': None}):
    """Phase timing on stderr (VT4_TIMING=1)."""
    now = time.time()
    if os.environ.get('VT4_TIMING') and _state['t'] is not None:
        print('[timing] %-28s %.1fs' % (label, now - _state['t']), file=sys.stderr)
    _state['t'] = now


NB = 64


def write_blocks(dirpath, traces, nb=NB):
    """One JSON file per validation block (read in parallel by the TLC workers)."""
    blocks = [[] for _ in range(nb)]
    for i, t in enumerate(traces):
        blocks[i % nb].append(t)
    for b, blk in enumerate(blocks):
        write_json(os.path.join(dirpath, 'b%d.json' % (b + 1)), blk)
