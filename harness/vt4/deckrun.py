"""Replay abstract decks into the real converter and have TLC validate the
recorded executions (TraceDeck.tla)."""
import shutil

from . import adeck, conv, core, t4file, tlc


def run_deck(job):
    """Worker.  job = dict(tid, deck, opts[, with_witness]) -> trace record."""
    deck = job['deck']
    phi = job.get('phi')
    real_points = None
    if phi is not None:
        # covariance: the converter sees the deck moved by phi, TLC the un-moved exact deck
        text = adeck.concretise(adeck.moved_deck(deck, phi))
        real_points = adeck.moved_points(deck['pts'], phi)
    else:
        text = job.get('text') or adeck.concretise(deck)
        real_points = job.get('real_points')
    res = conv.convert(text, job.get('opts', ()), encoding=job.get('encoding', 'utf-8'))
    rec = {'tid': job['tid'], 'result': res['result'], 'err': res['error'], 'text': text,
           'note': conv.note_cells(res['stdout']), 'warnings': res['warnings'][:3],
           'file': None, 'out': res['out'] if job.get('keep_out') else None,
           'opts': list(job.get('opts', ()))}
    if res['result'] == 'ok' and not deck['pts'] and not deck['cells']:
        rec['file'] = t4file.project(t4file.parse(res['out']), [], with_witness=False)
        rec['file']['cinfo'] = []
        rec['file']['wit'] = []
    elif res['result'] == 'ok':
        import hashlib
        rec['out_hash'] = hashlib.sha1(res['out'].encode()).hexdigest()[:12]
        t4 = t4file.parse(res['out'])
        rec['file'] = t4file.project(t4, deck['pts'], with_witness=(real_points is None), real_points=real_points)
        rec['file'].setdefault('wit', [])
        rec['file']['cinfo'] = adeck.composition_info(t4, deck)
        if job.get('keep_parsed'):
            rec['t4'] = t4
    return rec


EMPTY_FILE = {'cinfo': [], 'surfs': [], 'trs': [], 'vols': [], 'endg': True, 'njunk': 0, 'rows': [], 'wit': [],
              'compo': {'present': False, 'declared': 0, 'names': [], 'ncounts_ok': True,
                        'finite': True, 'njunk': 0},
              'geomcomp': {'present': False, 'rows': []},
              'bc': {'present': False, 'declared': 0, 'items': []}}


def tlc_deck(deck):
    """The part of an abstract deck TraceDeck.tla reads."""
    keep_c = ('n', 'mat', 'rho', 'geom', 'imp', 'u', 'lat', 'fill', 'hasftr', 'ftr', 'hastrcl',
              'trcl', 'lranges', 'lunivs', 'lsurfs', 'lvecs', 'latopt')
    keep_s = ('n', 'k', 'p', 'd', 'tr', 'bc', 'hlen', 'flen')
    return {'cells': [{k: (bool(c.get(k)) if k == 'latopt' else c[k]) for k in keep_c} for c in deck['cells']],
            'surfs': [{k: s[k] for k in keep_s} for s in deck['surfs']],
            'trs': [{'n': t['n'], 'o': t['o'], 'm': t['m']} for t in deck.get('trs', [])],
            'pts': deck['pts']}


def validate(chk, records, decks, clauses='owner,valid', module='TraceDeck', timeout=3000):
    """records: outputs of run_deck; decks: tid -> normalised deck.
    Returns {tid: verdict dict} (verdicts come from TLC)."""
    traces = []
    for rec in records:
        traces.append({'tid': rec['tid'], 'deck': tlc_deck(decks[rec['tid']]),
                       'result': rec['result'], 'file': rec['file'] or EMPTY_FILE,
                       'note': rec['note']})
    sd = tlc.scratch_dir('deck')
    core.write_blocks(sd, traces)
    try:
        val = tlc.run(module, 'INIT Init\nNEXT Next\nCHECK_DEADLOCK FALSE\n',
                      env={'TRACE_DIR': sd, 'CLAUSES': clauses}, workers=16, timeout=timeout)
    finally:
        shutil.rmtree(sd, ignore_errors=True)
    verdicts = {}
    for b in core.collect_blocks(val):
        for v in b['v']:
            verdicts[v['tid']] = v
    chk.cov['states'] += val['distinct']
    chk.cov['transitions'] += val['generated']
    if len(verdicts) != len(traces):
        chk.machinery('%s validated %d of %d traces' % (module, len(verdicts), len(traces)))
    return verdicts


def gen_decks(chk, module, constants, simulate=None, depth=80, seed=0, timeout=900, invariants=()):
    """Run a generator specification; returns the distinct emitted decks (sorted)."""
    cfg = 'INIT Init\nNEXT Next\nCONSTANTS\n' + ''.join(' %s = %s\n' % kv for kv in constants.items())
    cfg += ''.join('INVARIANT %s\n' % i for i in invariants) + 'CHECK_DEADLOCK FALSE\n'
    per_worker = None if simulate is None else max(1, simulate // 16)
    res = tlc.run(module, cfg, workers=16, simulate=per_worker, depth=depth, seed=seed, timeout=timeout)
    chk.add_tlc(res)
    if res['violation']:
        chk.violation({'clause': 'design:' + res['violation']},
                      {'what': module + ' design invariant violated', 'tlc': tlc._tail(res['stdout'], 40)})
    import json
    uniq = {}
    for d in tlc.printed_json(res['stdout']):
        if isinstance(d, dict) and 'cells' in d:
            uniq[json.dumps(d, sort_keys=True)] = d
    return [uniq[k] for k in sorted(uniq)]
