"""PEG interpreter standing in for TatSu's generated parser (DESIGN.md 2.1).

The installed TatSu 5.24 compiles MIP/geom/grammars/geom.ebnf but cannot parse
with it.  This module replaces ONLY the attribute ``MIP.geom.parsegeom.parser``
by an interpreter of the grammar text the repo itself loaded
(``parsegeom.grammar``), so the repo's ``normalize()``, grammar and
``GeomSemantics`` stay in charge of the meaning of cell expressions.

Supported grammar constructs (exactly those geom.ebnf uses): rules
``name = alt | alt ;``, sequences, ``label:`` prefixes, 'literals', /regex/,
``$`` and rule references, with direct/indirect left recursion by seed growing.
Anything else raises ShimUnsupported (a machinery failure, never a violation).
"""
import re

import tatsu.exceptions


class ShimUnsupported(Exception):
    """The grammar uses a construct this interpreter does not implement."""


class ShimFail(tatsu.exceptions.ParseException):
    """The text is not in the language of the grammar."""


class Node(dict):
    """AST node as TatSu builds it for rules with labels: dict + attributes,
    absent labels read as None."""

    def __getattr__(self, key):
        return self.get(key)


_TOKEN = re.compile(r"""\s*(?:
      (?P<label>[A-Za-z_]\w*)\s*:(?!:)
    | '(?P<lit>[^']*)'
    | /(?P<rx>(?:[^/\\]|\\.)*)/
    | (?P<eof>\$)
    | (?P<ref>[A-Za-z_]\w*)
    | (?P<bar>\|)
    )""", re.X)


def parse_grammar(text):
    # strip comments of the two kinds TatSu knows
    text = re.sub(r'\(\*.*?\*\)', ' ', text, flags=re.S)
    text = '\n'.join(l for l in text.splitlines() if not l.strip().startswith('#'))
    rules, order = {}, []
    pos = 0
    rule_re = re.compile(r'\s*([A-Za-z_]\w*)\s*=')
    while True:
        m = rule_re.match(text, pos)
        if not m:
            if text[pos:].strip():
                raise ShimUnsupported('cannot read grammar near %r' % text[pos:pos + 40])
            break
        name = m.group(1)
        pos = m.end()
        alts, cur, label = [], [], None
        while True:
            # end of rule?
            e = re.compile(r'\s*;').match(text, pos)
            if e:
                pos = e.end()
                break
            t = _TOKEN.match(text, pos)
            if not t:
                raise ShimUnsupported('unsupported grammar construct in rule %s near %r'
                                      % (name, text[pos:pos + 30]))
            pos = t.end()
            if t.group('label') is not None:
                label = t.group('label')
                continue
            if t.group('bar') is not None:
                if cur:
                    alts.append(cur)
                cur = []
                continue
            if t.group('lit') is not None:
                cur.append((label, 'lit', t.group('lit')))
            elif t.group('rx') is not None:
                cur.append((label, 'rx', re.compile(t.group('rx'))))
            elif t.group('eof') is not None:
                cur.append((label, 'eof', None))
            else:
                cur.append((label, 'ref', t.group('ref')))
            label = None
        if cur:
            alts.append(cur)
        rules[name] = alts
        order.append(name)
    for name, alts in rules.items():
        for alt in alts:
            for _, kind, arg in alt:
                if kind == 'ref' and arg not in rules:
                    raise ShimUnsupported('rule %s refers to unknown rule %s' % (name, arg))
    return rules, order


_FAIL = object()


class Parser:
    def __init__(self, grammar_text):
        self.grammar_text = grammar_text
        self.rules, self.order = parse_grammar(grammar_text)
        self.has_labels = {name: any(l for alt in alts for (l, _, _) in alt)
                           for name, alts in self.rules.items()}

    def parse(self, text, semantics=None, **_kw):
        self.text = text
        self.sem = semantics
        self.memo = {}
        self.growing = {}
        res = self._apply(self.order[0], 0)
        if res is _FAIL:
            raise ShimFail('shim: cannot parse %r' % (text,))
        return res[0]

    def _skip(self, pos):
        text = self.text
        while pos < len(text) and text[pos].isspace():
            pos += 1
        return pos

    def _apply(self, rule, pos):
        key = (rule, pos)
        if key in self.memo:
            return self.memo[key]
        if key in self.growing:
            return self.growing[key]
        self.growing[key] = _FAIL
        last = _FAIL
        while True:
            res = self._eval_rule(rule, pos)
            if res is _FAIL or (last is not _FAIL and res[1] <= last[1]):
                break
            last = res
            self.growing[key] = res
            # results computed at this position while the seed was smaller are stale
            self.memo = {k: v for k, v in self.memo.items() if k[1] != pos}
        del self.growing[key]
        if not any(k[1] == pos for k in self.growing):
            self.memo[key] = last
        return last

    def _eval_rule(self, rule, pos):
        for alt in self.rules[rule]:
            res = self._eval_seq(rule, alt, pos)
            if res is not _FAIL:
                return res
        return _FAIL

    def _eval_seq(self, rule, items, pos):
        vals, named = [], {}
        text = self.text
        for label, kind, arg in items:
            pos = self._skip(pos)
            if kind == 'lit':
                if not text.startswith(arg, pos):
                    return _FAIL
                val = arg
                pos += len(arg)
            elif kind == 'rx':
                m = arg.match(text, pos)
                if not m:
                    return _FAIL
                val = m.group(0)
                pos = m.end()
            elif kind == 'eof':
                if pos != len(text):
                    return _FAIL
                continue
            else:
                res = self._apply(arg, pos)
                if res is _FAIL:
                    return _FAIL
                val, pos = res
            if label:
                named[label] = val
            vals.append(val)
        if self.has_labels[rule]:
            node = Node(named)
        else:
            node = vals[0] if len(vals) == 1 else vals
        action = getattr(self.sem, rule, None) if self.sem is not None else None
        if action is not None:
            node = action(node)
        return node, pos


def install():
    """Swap the parser object used by the repo's get_ast()."""
    from MIP.geom import parsegeom
    if not isinstance(parsegeom.parser, Parser) or \
            parsegeom.parser.grammar_text != parsegeom.grammar:
        parsegeom.parser = Parser(parsegeom.grammar)
    return parsegeom.parser
