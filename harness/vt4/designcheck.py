"""Design check with PipelineD.tla (deterministic transcription of the Boolean core) and replay of its
behaviours into the real converter: TLC checks MeaningPreserved / Wellformed / OptimiseSound in every state;
every emitted (expression, volume dictionary) pair is replayed into the real code and the two volume
dictionaries are compared modulo renaming (structural agreement, reported, never a violation by itself)."""
import json

from . import adeck, conv, core, deckrun, t4file, tlc

CONFIGS = [
    # (NSurf, Dups as TLA+ text, surface cards of the replay deck)
    (3, 'DupsNone', ['px -3', 'py 0', 'pz 2'], []),
    (3, 'DupsDeck', ['px -3', 'py 0', 'px -3'], [[1, 3]]),
    (3, 'DupsAux0', ['px -3', 'px 1', 'pz 2'], [[2, 4]]),          # surface 2 is the auxiliary plane PLANEX 1
    (3, 'DupsAux1', ['px -3', 'py 0', 'px -1'], [[3, 5]]),         # surface 3 is the auxiliary plane PLANEX -1
]


def to_expr(t):
    """PipelineD tree (<<"S", n>> leaves) -> Expr/adeck tree."""
    if t[0] == 'S':
        return ['S', t[1], 0]
    return [t[0]] + [to_expr(k) for k in t[1:]]


def canon_model(vols, vid, nsurf, dups):
    v = next(x for x in vols if x['id'] == vid)
    return (tuple(sorted(v['plus'])), tuple(sorted(v['minus'])), v['op'],
            tuple(sorted(canon_model(vols, a, nsurf, dups) for a in v['args'])))


def canon_real(t4, vid, aux):
    v = next(x for x in t4['vols'] if x['id'] == vid)
    toks = v['toks']
    plus, minus, op, args = [], [], 'NONE', []
    i = 1
    while i < len(toks) and toks[i] != 'ENDV':
        if toks[i] in ('PLUS', 'MINUS', 'UNION', 'INTE'):
            n = int(toks[i + 1])
            items = [int(x) for x in toks[i + 2:i + 2 + n]]
            if toks[i] == 'PLUS':
                plus = items
            elif toks[i] == 'MINUS':
                minus = items
            else:
                op, args = toks[i], items
            i += 2 + n
        else:
            i += 1
    ren = lambda s: aux.get(s, s)
    return (tuple(sorted(ren(s) for s in plus)), tuple(sorted(ren(s) for s in minus)), op,
            tuple(sorted(canon_real(t4, a, aux) for a in args)))


PTS = [[x, y, z] for x in (-7, -3, -1, 1, 3) for y in (-3, 1) for z in (1, 5)]     # both sides of every plane used


def replay_one(job):
    tid, rec, nsurf, cards = job
    deck = adeck.normalise({'surfs': [{'n': i + 1, 'k': c.split()[0], 'p': [int(x) for x in c.split()[1:]]}
                                      for i, c in enumerate(cards)],
                            'cells': [{'n': 1, 'geom': to_expr(rec['tree'])}, {'n': 2, 'geom': ['C', 1], 'imp': 0}]})
    deck['pts'] = PTS
    text = adeck.concretise(deck)
    res = conv.convert(text)
    out = {'tid': tid, 'result': res['result'], 'agree': False, 'text': text, 'err': res['error'], 'deck': deck,
           'file': None, 'note': conv.note_cells(res['stdout'])}
    if res['result'] != 'ok':
        return out
    t4 = t4file.parse(res['out'])
    out['file'] = t4file.project(t4, PTS, with_witness=False)
    out['file']['wit'] = []
    out['file']['cinfo'] = []
    # auxiliary planes of the real file -> the model's U0 / U1 (after de-duplication they may be deck surfaces)
    aux = {}
    for s in t4['surfs']:
        if 'aux plane for unions' in s['comment']:
            aux[s['id']] = nsurf + 1 if float(s['ptoks'][0]) == 1.0 else nsurf + 2
    real_has = any(v['id'] == 1 for v in t4['vols'])
    model_has = rec['root'] == 1 and any(v['id'] == 1 for v in rec['vols'])
    if real_has != model_has:
        out['agree'] = False
        out['why'] = 'cell volume present in %s only' % ('code' if real_has else 'model')
        return out
    if not real_has:
        out['agree'] = True
        return out
    # model surface ids after Rep() are deck ids or U0/U1; duplicates of aux planes are renamed to the deck id
    rep = {}
    for a, b in rec.get('dups', []):
        rep[b] = a
    cm = canon_model(rec['vols'], 1, nsurf, None)
    cr = canon_real(t4, 1, {k: rep.get(v, v) for k, v in aux.items()})
    out['agree'] = cm == cr
    if not out['agree']:
        out['why'] = 'model %r code %r' % (cm, cr)
    return out


def run(chk, thorough, seed, configs=None, simulate=True):
    """Returns dict of counts; records design violations in chk."""
    recs_all = []
    stats = {'design_states': 0, 'design_trees': 0, 'replayed': 0, 'structural_agreement': 0, 'disagreements': []}
    for nsurf, dups, cards, pairs in (configs or CONFIGS):
        runs = [(4 if thorough else 3, None)]
        if simulate:
            runs.append((6, 3000 if thorough else 600))
        for maxleaves, sim in runs:
            cfg = ('INIT Init\nNEXT Next\nCONSTANTS MaxLeaves = %d\n NSurf = %d\n Dups <- %s\n'
                   'INVARIANT MeaningPreserved\nINVARIANT Wellformed\nINVARIANT OptimiseSound\nCHECK_DEADLOCK FALSE\n'
                   % (maxleaves, nsurf, dups))
            res = tlc.run('PipelineD', cfg, workers=16, simulate=None if sim is None else max(1, sim // 16), depth=40,
                          seed=seed + maxleaves, timeout=3000)
            chk.add_tlc(res)
            stats['design_states'] += res['distinct']
            if res['violation']:
                chk.violation({'clause': 'design:' + res['violation'], 'dups': dups},
                              {'what': 'PipelineD design invariant violated', 'tlc': tlc._tail(res['stdout'], 60)})
            uniq = {}
            for r in tlc.printed_json(res['stdout']):
                if isinstance(r, dict) and 'root' in r:
                    uniq[json.dumps(r['tree'])] = r
            for k in sorted(uniq):
                r = uniq[k]
                r['dups'] = pairs
                recs_all.append((r, nsurf, cards))
    stats['design_trees'] = len(recs_all)
    jobs = [(i + 1, r, n, c) for i, (r, n, c) in enumerate(recs_all)]
    results = conv.run_batch(replay_one, jobs, chunksize=32)
    # the replayed decks are also validated against the reference meaning (owner clause), so that a change of
    # the CODE that the model does not share (structural disagreement) is judged by what it does to the geometry
    good = [r for r in results if 'machinery_error' not in r]
    try:
        verdicts = deckrun.validate(chk, good, {r['tid']: r['deck'] for r in good}, 'owner')
    except tlc.TLCFailure as exc:
        chk.machinery(str(exc))
        verdicts = {}
    byid = {r['tid']: r for r in good}
    for tid, v in sorted(verdicts.items()):
        for kind, k in v['bad']:
            if kind in ('spurious', 'unowned', 'multi', 'wrongid'):
                chk.violation({'clause': kind, 'where': 'design replay', 'errtype': None, 'features': 'duplicates'},
                              {'text': byid[tid]['text'], 'deck': byid[tid]['deck'], 'clauses': 'owner',
                               'point2': PTS[k - 1] if k else None})
    for r in results:
        if 'machinery_error' in r:
            chk.machinery(r['machinery_error'])
            continue
        stats['replayed'] += 1
        if r['result'] != 'ok':
            chk.violation({'clause': 'crash', 'errtype': r['err']['type'] if r['err'] else None, 'where': 'design replay'},
                          {'text': r['text'], 'error': r['err']})
        elif r['agree']:
            stats['structural_agreement'] += 1
        elif len(stats['disagreements']) < 5:
            stats['disagreements'].append({'text': r['text'], 'why': r.get('why')})
    return stats


# ---------------------------------------------------------------------------
# PipelineD2: FILL development + inlining + cell references, every option set

CONFIGS2 = [
    (3, 'DupsNone', ['px -3', 'py 0', 'pz 2'], []),
    (3, 'DupsDeck', ['px -3', 'py 0', 'px -3'], [[1, 3]]),
    (3, 'DupsAux0', ['px -3', 'px 1', 'pz 2'], [[2, 4]]),
]


def fill_opts(o):
    opts = []
    if o['filled']:
        opts.append('--always-inline-filled')
    if o['filling']:
        opts.append('--always-inline-filling')
    opts += ['--max-inline-score', repr(o['max2'] / 2)]
    return opts


def replay_fill(job):
    tid, rec, nsurf, cards = job
    cells = [{'n': c['key'], 'geom': to_expr(c['geom']), 'u': c['u'], 'fill': c['fill']}
             for c in sorted(rec['deck'], key=lambda c: c['key'])]
    deck = adeck.normalise({'surfs': [{'n': i + 1, 'k': c.split()[0], 'p': [int(x) for x in c.split()[1:]]}
                                      for i, c in enumerate(cards)], 'cells': cells})
    deck['pts'] = PTS
    deck['opts'] = fill_opts(rec['opts'])
    text = adeck.concretise(deck)
    res = conv.convert(text, deck['opts'])
    out = {'tid': tid, 'result': res['result'], 'agree': False, 'text': text, 'err': res['error'], 'deck': deck,
           'file': None, 'note': conv.note_cells(res['stdout']), 'opts': deck['opts']}
    if res['result'] != 'ok':
        return out
    t4 = t4file.parse(res['out'])
    out['file'] = t4file.project(t4, PTS, with_witness=False)
    out['file']['wit'] = []
    out['file']['cinfo'] = []
    aux = {}
    for s in t4['surfs']:
        if 'aux plane for unions' in s['comment']:
            aux[s['id']] = nsurf + 1 if float(s['ptoks'][0]) == 1.0 else nsurf + 2
    rep = {b: a for a, b in rec.get('dups', [])}
    aux = {k: rep.get(v, v) for k, v in aux.items()}
    real_ids = {v['id'] for v in t4['vols']}
    model_ids = {v['id'] for v in rec['vols']}
    why = []
    for c in rec['conv']:
        k = c['key']
        if (k in real_ids) != (k in model_ids):
            why.append('volume %d present in %s only' % (k, 'code' if k in real_ids else 'model'))
        elif k in real_ids:
            cm, cr = canon_model(rec['vols'], k, nsurf, None), canon_real(t4, k, aux)
            if cm != cr:
                why.append('volume %d: model %r code %r' % (k, cm, cr))
    nfict_model = sum(1 for v in rec['vols'] if v['fict'])
    nfict_real = sum(1 for v in t4['vols'] if 'FICTIVE' in v['toks'])
    if nfict_model != nfict_real:
        why.append('fictive volumes: model %d code %d' % (nfict_model, nfict_real))
    out['agree'] = not why
    if why:
        out['why'] = '; '.join(why[:3])
    return out


def run_fill(chk, thorough, seed, configs=None):
    """Model-check PipelineD2 (every deck x every option set) and replay every emitted behaviour."""
    stats = {'design_states': 0, 'design_decks': 0, 'replayed': 0, 'structural_agreement': 0, 'disagreements': []}
    recs_all = []
    for nsurf, dups, cards, pairs in (configs or (CONFIGS2 if thorough else CONFIGS2[:2])):
        cfg = ('INIT Init\nNEXT Next\nCONSTANTS NSurf = %d\n Dups <- %s\n'
               'INVARIANT MeaningPreserved\nINVARIANT Wellformed\nINVARIANT InlineSound\nCHECK_DEADLOCK FALSE\n'
               % (nsurf, dups))
        res = tlc.run('PipelineD2', cfg, workers=16, timeout=3000)
        chk.add_tlc(res)
        stats['design_states'] += res['distinct']
        if res['violation']:
            chk.violation({'clause': 'design:' + res['violation'], 'dups': dups, 'where': 'PipelineD2'},
                          {'what': 'PipelineD2 design invariant violated', 'tlc': tlc._tail(res['stdout'], 60)})
        recs = [r for r in tlc.printed_json(res['stdout']) if isinstance(r, dict) and 'conv' in r]
        recs.sort(key=lambda r: json.dumps(r, sort_keys=True))
        if not thorough:
            # every option set is kept; decks are thinned deterministically
            import random
            rng = random.Random(seed)
            recs = rng.sample(recs, min(len(recs), 800))
        for r in recs:
            r['dups'] = pairs
            recs_all.append((r, nsurf, cards))
    stats['design_decks'] = len(recs_all)
    jobs = [(i + 1, r, n, c) for i, (r, n, c) in enumerate(recs_all)]
    results = conv.run_batch(replay_fill, jobs, chunksize=32)
    good = [r for r in results if 'machinery_error' not in r and r['result'] == 'ok']
    try:
        verdicts = deckrun.validate(chk, good, {r['tid']: r['deck'] for r in good}, 'owner')
    except tlc.TLCFailure as exc:
        chk.machinery(str(exc))
        verdicts = {}
    byid = {r['tid']: r for r in good}
    for tid, v in sorted(verdicts.items()):
        for kind, k in v['bad']:
            if kind in ('spurious', 'unowned', 'multi', 'wrongid', 'wrongprov'):
                chk.violation({'clause': kind, 'where': 'fill design replay', 'errtype': None,
                               'features': 'fill,' + ' '.join(byid[tid]['opts'][:-2])},
                              {'text': byid[tid]['text'], 'deck': byid[tid]['deck'], 'clauses': 'owner',
                               'opts': byid[tid]['opts'], 'point2': PTS[k - 1] if k else None})
    for r in results:
        if 'machinery_error' in r:
            chk.machinery(r['machinery_error'])
            continue
        stats['replayed'] += 1
        if r['result'] != 'ok':
            chk.violation({'clause': 'crash', 'errtype': r['err']['type'] if r['err'] else None,
                           'where': 'fill design replay'},
                          {'text': r['text'], 'error': r['err'], 'opts': r['opts']})
        elif r['agree']:
            stats['structural_agreement'] += 1
        elif len(stats['disagreements']) < 5:
            stats['disagreements'].append({'text': r['text'], 'opts': r['opts'], 'why': r.get('why')})
    return stats
