#!/bin/sh
# Offline setup: everything is interpreted (Python from /venv, TLA+ by TLC); only sanity checks here.
set -e
cd "$(dirname "$0")"
mkdir -p scratch evidence replay
/venv/bin/python -c "import numpy, tatsu, hypothesis" 
java -cp /opt/veriftools/tla/tla2tools.jar tlc2.TLC -h >/dev/null 2>&1 || true
echo "vt4 setup ok"
