#!/venv/bin/python
"""Binding demonstration (DESIGN.md section 11): corrupt one recorded field or drop one hook event of a
real trace and show that TracePipeline.tla rejects it with the right clause."""
import copy, json, os, random, sys
os.environ.setdefault('T4_GEOM_CONVERT_VERIF', '1')
sys.path.insert(0, '/repo'); sys.path.insert(0, os.path.join(os.path.dirname(os.path.dirname(os.path.abspath(__file__))), 'harness'))
from vt4 import adeck, core, pipeline

DECK = {'surfs': [{'n': 1, 'k': 'so', 'p': [3]}, {'n': 2, 'k': 'px', 'p': [0]}, {'n': 3, 'k': 'px', 'p': [0]}, {'n': 4, 'k': 'py', 'p': [1]}],
        'cells': [{'n': 1, 'geom': ['*', ['S', -1, 0], [':', ['S', -2, 0], ['S', 4, 0]]]}, {'n': 2, 'geom': ['*', ['S', -1, 0], ['C', 1]]},
                  {'n': 3, 'geom': ['*', ['S', 1, 0], ['S', 3, 0]], 'imp': 0}, {'n': 4, 'geom': ['*', ['S', 1, 0], ['S', -3, 0]], 'imp': 0}]}

LATDECK = {'surfs': [{'n': 1, 'k': 'so', 'p': [6]}, {'n': 11, 'k': 'px', 'p': [1]}, {'n': 12, 'k': 'px', 'p': [-1]},
                     {'n': 13, 'k': 'py', 'p': [1]}, {'n': 14, 'k': 'py', 'p': [-1]}, {'n': 21, 'k': 'pz', 'p': [0]}],
           'cells': [{'n': 1, 'geom': ['S', -1, 0], 'fill': 1}, {'n': 2, 'geom': ['S', 1, 0], 'imp': 0},
                     {'n': 10, 'geom': ['*', ['S', -11, 0], ['S', 12, 0], ['S', -13, 0], ['S', 14, 0]], 'u': 1, 'lat': 1,
                      'lranges': [[-1, 1], [0, 1]], 'lunivs': [2, 3, 2, 0, 1, 3], 'lvecs': [[4, 0, 0], [0, 4, 0]], 'mat': 1,
                      'rho': 1, 'rhotxt': '-1.0'},
                     {'n': 21, 'geom': ['S', -21, 0], 'u': 2}, {'n': 22, 'geom': ['S', 21, 0], 'u': 2},
                     {'n': 31, 'geom': ['S', 21, 0], 'u': 3}, {'n': 32, 'geom': ['S', -21, 0], 'u': 3}]}


def main():
    rng = random.Random(0)
    d = adeck.normalise(DECK); d['pts'] = adeck.grid_points(rng, 80, -9, 9)
    rec = pipeline.run_traced({'tid': 1, 'deck': d, 'opts': []})
    variants = {'unmodified': rec}
    r = copy.deepcopy(rec); st = next(s for s in r['stages'] if s['stage'] == 'converted'); st['rows'][0]['row'] = [-x for x in st['rows'][0]['row']]
    variants['sense row of one surface negated at stage converted'] = r
    r = copy.deepcopy(rec); r['names'] = [n for n in r['names'] if n != 'inline']; r['stages'] = [s for s in r['stages'] if s['stage'] != 'inline']
    variants['hook event inline dropped'] = r
    r = copy.deepcopy(rec); st = next(s for s in r['stages'] if s['stage'] == 'dedup')
    ids = [w['id'] for w in st['wit']]; st['renum'] = st['renum'] + [[ids[-1], ids[0]]]
    variants['renumbering extended by a merge of two different surfaces'] = r
    r = copy.deepcopy(rec); v = r['file']['vols'][0]; i = v['tk'].index('NUM'); v['tv'][i] += 1
    variants['a count in the written VOLU line altered'] = r
    chk = core.Check('C13', clean=False)
    ok = True
    for name, r in variants.items():
        v = pipeline.validate(chk, [dict(r, tid=1)], {1: d})[1]
        print('%-60s -> %s' % (name, sorted(map(tuple, v['bad'])) or 'accepted'))
        ok = ok and ((name == 'unmodified') == (not v['bad']))
    # the lattice pass: a real trace of a lattice deck, one recorded element dropped / displaced / given another universe
    ld = adeck.normalise(LATDECK); ld['pts'] = adeck.grid_points(rng, 60, -9, 9)
    lrec = pipeline.run_traced({'tid': 1, 'deck': ld, 'opts': []})
    lvariants = {'lattice deck, unmodified': lrec}
    r = copy.deepcopy(lrec); st = next(s for s in r['stages'] if s['stage'] == 'lattice'); st['elems'].pop()
    lvariants['one element of the lattice stage dropped'] = r
    r = copy.deepcopy(lrec); st = next(s for s in r['stages'] if s['stage'] == 'lattice'); st['elems'][0]['o2'][0] += 4
    lvariants['one element of the lattice stage displaced'] = r
    r = copy.deepcopy(lrec); st = next(s for s in r['stages'] if s['stage'] == 'lattice')
    st['elems'][0]['fill'] = 3 if st['elems'][0]['fill'] != 3 else 2
    lvariants['one element of the lattice stage filled with another universe'] = r
    r = copy.deepcopy(lrec); st = next(s for s in r['stages'] if s['stage'] == 'parsed'); st['pcells'][2]['u'] = 7
    lvariants['universe of one parsed cell altered'] = r
    r = copy.deepcopy(lrec); st = next(s for s in r['stages'] if s['stage'] == 'parsed'); st['pcells'][2]['univs'][0] = 3 if st['pcells'][2]['univs'][0] != 3 else 2
    lvariants['one entry of the parsed FILL array altered'] = r
    for name, r in lvariants.items():
        v = pipeline.validate(chk, [dict(r, tid=1)], {1: ld})[1]
        print('%-60s -> %s' % (name, sorted(map(tuple, v['bad'])) or 'accepted'))
        ok = ok and ((name == 'lattice deck, unmodified') == (not v['bad']))
    print('binding demonstration', 'OK' if ok else 'FAILED')
    return 0 if ok else 1
sys.exit(main())
