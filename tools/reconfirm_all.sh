#!/bin/sh
# usage: tools/reconfirm_all.sh [names...] -- re-confirm the kept seeded changes against /repo HEAD:
# patch applies, demo passes without / fails with it, the recorded check reports a violation.
cd /verif
names="$*"; [ -z "$names" ] && names=$(ls seeded | grep -v "^_")
for name in $names; do
  d=/verif/seeded/$name
  id=$(echo "$name" | cut -c1-3)
  checkid=$(python3 -c "import json;print(json.load(open('$d/meta.json'))['detected_by']['check'])")
  wt=$(mktemp -d /tmp/reconf.XXXXXX)
  git -C /repo worktree add -q --detach "$wt" HEAD || exit 3
  cp $d/demo_*.py "$wt/" 2>/dev/null
  demo=$(ls $d | grep '^demo_' | head -1)
  ( cd "$wt" && PYTHONPATH="$wt:/verif/seeded/_kit" timeout 600 /venv/bin/python $demo > /tmp/reconf_clean.out 2>&1 ); rc_clean=$?
  applied=yes
  if ! git -C "$wt" apply "$d/patch.diff" 2>/dev/null; then
    if ! (cd "$wt" && patch -p1 -s --fuzz=3 < "$d/patch.diff" >/dev/null 2>&1); then applied=no; fi
  fi
  ( cd "$wt" && PYTHONPATH="$wt:/verif/seeded/_kit" timeout 600 /venv/bin/python $demo > /tmp/reconf_seeded.out 2>&1 ); rc_seeded=$?
  VT4_REPO="$wt" /verif/check "$checkid" quick > /tmp/reconf_check.out 2>&1; rc_check=$?
  nviol=$(grep -c '^VIOLATION' /tmp/reconf_check.out)
  git -C /repo worktree remove --force "$wt"
  echo "$name applied=$applied demo_clean=$rc_clean demo_seeded=$rc_seeded check=$checkid rc=$rc_check violations=$nviol"
done
