#!/bin/sh
# usage: tools/run_mutants.sh [pattern]   -- for each mutants/<prop>-<name>.patch: scratch worktree of /repo HEAD,
# baseline tests must still pass, the property's quick check must report a VIOLATION.  One line per mutant.
cd "$(dirname "$0")/.."
for p in mutants/${1:-C}*.patch; do
  id=$(basename "$p" | cut -d- -f1); name=$(basename "$p" .patch)
  wt=$(mktemp -d /tmp/mutwt.XXXXXX)
  git -C /repo worktree add -q --detach "$wt" HEAD || exit 3
  if ! git -C "$wt" apply "$PWD/$p" 2>/dev/null; then echo "$name: patch does not apply"; git -C /repo worktree remove --force "$wt"; continue; fi
  tests=$(cd "$wt" && rm -rf .hypothesis && PYTHONPATH="$wt" /venv/bin/python -m pytest -q -p no:cacheprovider --timeout=900 --hypothesis-seed=0 -k "not test_convert and not test_density_zeros" 2>&1 | tail -1 | sed 's/=//g' | cut -c1-40)
  out=$(VT4_REPO="$wt" ./check "$id" quick 2>&1); rc=$?
  nv=$(echo "$out" | grep -c '^VIOLATION')
  echo "$name: tests[$tests] check rc=$rc violations=$nv $(echo "$out" | grep -E '^MACHINERY' | head -1 | cut -c1-120)"
  git -C /repo worktree remove --force "$wt"
done
