#!/bin/sh
# usage: tools/confirm_seed.sh <Cxx> [patchfile] -- confirm a seeded change in a scratch worktree of /repo HEAD:
# tests pass with it, demo passes without it and fails with it, own check detects it.  Writes /verif/seeded/<id>/.
id="$1"; src="${SEEDSRC:-/tmp/seed}/$id"; patch="${2:-$src/patch.diff}"
checkid="${CHECKID:-$id}"
out=/verif/seeded/${OUTNAME:-$id}; mkdir -p "$out"
wt=$(mktemp -d /tmp/confirm.XXXXXX)
git -C /repo worktree add -q --detach "$wt" HEAD || exit 3
cp "$src/demo_$id.py" "$wt/"
( cd "$wt" && PYTHONPATH="$wt:/verif/seeded/_kit" /venv/bin/python demo_$id.py > /tmp/confirm_$id.clean 2>&1 ); rc_clean=$?
if ! git -C "$wt" apply "$patch"; then echo "$id: patch does not apply"; git -C /repo worktree remove --force "$wt"; exit 3; fi
( cd "$wt" && PYTHONPATH="$wt:/verif/seeded/_kit" /venv/bin/python demo_$id.py > /tmp/confirm_$id.seeded 2>&1 ); rc_seeded=$?
( cd "$wt" && rm -rf .hypothesis && PYTHONPATH="$wt" /venv/bin/python -m pytest -q -p no:cacheprovider --timeout=900 --continue-on-collection-errors --hypothesis-seed=0 -k "not test_convert and not test_density_zeros" > /tmp/confirm_$id.tests 2>&1 ); rc_tests=$?
tests=$(tail -1 /tmp/confirm_$id.tests)
VT4_REPO="$wt" /verif/check "$checkid" quick > /tmp/confirm_$id.check 2>&1; rc_check=$?
nviol=$(grep -c '^VIOLATION' /tmp/confirm_$id.check)
git -C "$wt" diff > "$out/patch.diff"
cp "$src/demo_$id.py" "$out/"; cp "$src/NOTE.md" "$out/NOTE.md" 2>/dev/null
git -C /repo worktree remove --force "$wt"
head=$(git -C /repo log --format=%h -1)
python3 - "$id" "$rc_clean" "$rc_seeded" "$rc_tests" "$tests" "$rc_check" "$nviol" "$head" "${OUTNAME:-$id}" "$checkid" <<'PY'
import json, sys
id_, rc_clean, rc_seeded, rc_tests, tests, rc_check, nviol, head, outname, checkid = sys.argv[1:]
note = open('/verif/seeded/%s/NOTE.md' % outname).read() if __import__('os').path.exists('/verif/seeded/%s/NOTE.md' % id_) else ''
meta = {'property': id_, 'source': 'fresh sub-agent given only the property text and a scratch worktree',
        'applies_to_repo_commit': head,
        'needs_to_manifest': note,
        'confirmed': {'demo_on_clean_tree_exit': int(rc_clean), 'demo_with_change_exit': int(rc_seeded),
                      'baseline_tests_with_change': tests.strip(), 'baseline_tests_exit': int(rc_tests)},
        'detected_by': {'check': checkid, 'tier': 'quick', 'exit': int(rc_check), 'violation_lines': int(nviol)},
        'ran': ['git worktree add --detach <tmp> HEAD; git apply patch.diff',
                'PYTHONPATH=<tmp>:/verif/seeded/_kit /venv/bin/python demo_%s.py (before and after the patch)' % id_,
                'pytest -k "not test_convert and not test_density_zeros" in the patched worktree',
                'VT4_REPO=<tmp> /verif/check %s quick' % checkid]}
json.dump(meta, open('/verif/seeded/%s/meta.json' % outname, 'w'), indent=1)
print(id_, 'demo clean/seeded exit', rc_clean, rc_seeded, '| tests', tests.strip()[:40], '| check exit', rc_check, 'violations', nviol)
PY
