#!/bin/sh
# usage: tools/apply_seed.sh <patch> <check-id> [tier]
# Runs one check against a scratch worktree of /repo HEAD with the seeded change applied
# (VT4_REPO points the harness at it); /repo itself is never touched.
patch="$1"; id="$2"; t="${3:-quick}"
wt=$(mktemp -d /tmp/seedwt.XXXXXX)
git -C /repo worktree add -q --detach "$wt" HEAD || exit 3
if ! git -C "$wt" apply "$patch" 2>/dev/null; then
  if ! (cd "$wt" && patch -p1 -s --fuzz=3 < "$patch"); then echo "patch does not apply"; git -C /repo worktree remove --force "$wt"; exit 3; fi
fi
VT4_REPO="$wt" /verif/check "$id" "$t" > /tmp/seedrun_$id.out 2>&1; rc=$?
git -C /repo worktree remove --force "$wt"
echo "rc=$rc"; grep -E "VIOLATION|KNOWN|^OK|MACHINERY" /tmp/seedrun_$id.out | cut -c1-160 | head -6
