#!/bin/sh
# usage: tools_apply_seed.sh <patch> <check-id> [tier]   -- applies a seeded change to /repo, runs one check, reverts
patch="$1"; id="$2"; t="${3:-quick}"
git -C /repo apply "$patch" || exit 3
/verif/check "$id" "$t" > /tmp/seedrun_$id.out 2>&1; rc=$?
git -C /repo checkout -- .
echo "rc=$rc"; grep -E "VIOLATION|KNOWN|OK|MACHINERY" /tmp/seedrun_$id.out | head -8
