#!/bin/sh
# usage: tools/sweep.sh "<ids>" "<seeds>" [tier]  -- run checks under several seeds, print one line each
cd "$(dirname "$0")/.."
for id in $1; do for sd in $2; do
  out=$(VERIF_SEED=$sd ./check $id ${3:-quick} 2>&1); rc=$?
  echo "$id seed=$sd rc=$rc $(echo "$out" | grep -E '^(OK|VIOLATION|MACHINERY)' | head -2 | tr '\n' ' ')"
done; done
