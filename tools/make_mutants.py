#!/usr/bin/env python3
"""Regenerate mutants/*.patch from /repo HEAD: realistic one-line source mutations per property
(DESIGN.md Appendix F), used to validate the machinery itself (tools/run_mutants.sh)."""
import os, subprocess, sys, tempfile
HERE = os.path.dirname(os.path.dirname(os.path.abspath(__file__)))
K = 't4_geom_convert/Kernel/'
M = [
 ('C01', 'optimise_flattens_union_into_intersection', K + 'Volume/CellConversion.py',
  "            if isIntersection(node) and operator == '*':", "            if isIntersection(node) or (isUnion(node) and operator == '*'):"),
 ('C01', 'conv_equa_swaps_sides', K + 'Volume/CellConversion.py',
  "            if elt < 0:\n                minus_surfs.append(-elt)\n            elif elt > 0:\n                plus_surfs.append(elt)",
  "            if elt < 0:\n                plus_surfs.append(-elt)\n            elif elt > 0:\n                minus_surfs.append(elt)"),
 ('C01', 'remove_empty_deletes_unions', K + 'Volume/ConstructVolumeT4.py',
  "            if val.ops is None or val.ops[0] != 'UNION':", "            if True:"),
 ('C02', 'c_y_keeps_wrong_coordinates', 'MIP/geom/forcad.py',
  "    return _cylinder(p[0], 0, p[1], p[2], 0, 1, 0)", "    return _cylinder(p[0], p[1], 0, p[2], 0, 1, 0)"),
 ('C02', 'cone_angle_in_radians', K + 'Surface/ConversionSurfaceMCNPToT4.py',
  "    theta = 180. * val.compl_param[1] / pi", "    theta = val.compl_param[1]"),
 ('C02', 'three_point_plane_not_flipped', K + 'VectUtils.py',
  "    if pos < -epsilon:\n        # make sure the origin lies on the negative side of the plane\n        return flipped_params",
  "    if pos < -epsilon:\n        # make sure the origin lies on the negative side of the plane\n        return params"),
 ('C03', 'box_side_bc', K + 'Surface/MacroBodies.py',
  "    side_bc = 1 if scal(normal_bc, vec_a) < 0. else -1", "    side_bc = 1 if scal(normal_bc, vec_a) > 0. else -1"),
 ('C03', 'rpp_x_sides_swapped', K + 'Surface/MacroBodies.py',
  "        (MS.P, [1, 0, 0, xmax], 1),\n        (MS.P, [1, 0, 0, xmin], -1),", "        (MS.P, [1, 0, 0, xmin], -1),\n        (MS.P, [1, 0, 0, xmax], 1),"),
 ('C03', 'rcc_top_bottom_swapped', K + 'Surface/MacroBodies.py',
  "        (MS.C, base_bottom + [radius] + height, 1),\n        (MS.P, planeParamsFromNormalAndPoint(height, base_top), 1),\n        (MS.P, planeParamsFromNormalAndPoint(height, base_bottom), -1),",
  "        (MS.C, base_bottom + [radius] + height, 1),\n        (MS.P, planeParamsFromNormalAndPoint(height, base_bottom), -1),\n        (MS.P, planeParamsFromNormalAndPoint(height, base_top), 1),"),
 ('C04', 'mip_transform_vector_rows', 'MIP/geom/transforms.py',
  "    xp = b1*x + b4*y + b7*z\n    yp = b2*x + b5*y + b8*z\n    zp = b3*x + b6*y + b9*z", "    xp = b1*x + b2*y + b3*z\n    yp = b4*x + b5*y + b6*z\n    zp = b7*x + b8*y + b9*z"),
 ('C04', 'to_cos_radians', 'MIP/geom/transforms.py', "    return cos(radians(a))", "    return cos(a)"),
 ('C04', 'matrix6_cross_product_order', K + 'Transformation/Transformation.py',
  "    row_2 = vect(row_0, row_1)", "    row_2 = vect(row_1, row_0)"),
 ('C05', 'fill_prefers_trcl', K + 'Volume/CellConversion.py',
  "            if mcnp_key_filltr:\n                new_elt_key = self.cell_transform(new_elt_key, mcnp_key_filltr,\n                                                  cache=cache)\n            elif cell.trcl:",
  "            if mcnp_key_filltr and not cell.trcl:\n                new_elt_key = self.cell_transform(new_elt_key, mcnp_key_filltr,\n                                                  cache=cache)\n            elif cell.trcl:"),
 ('C05', 'cell_transform_cache_key_without_transform', K + 'Volume/CellConversion.py',
  "            cache_key = (cell_key, tuple(transform))", "            cache_key = (cell_key, len(tuple(transform)))"),
 ('C06', 'fill_array_reversed', K + 'FileHandlers/Parser/ParseMCNPCell.py',
  "            del kw_list[-consumed:]  # remove the last `consumed` elements", "            del kw_list[-consumed:]  # remove the last `consumed` elements\n            fillid_u = list(reversed(fillid_u))"),
 ('C06', 'lattice_index_slowest_first', K + 'Volume/Lattice.py',
  "                tail = bounds[-1]\n                rest = bounds[:-1]\n                for elem in range(tail[0], tail[1] + 1):\n                    for heads in _indices(rest):\n                        yield heads + [elem]",
  "                tail = bounds[-1]\n                rest = bounds[:-1]\n                for heads in _indices(rest):\n                    for elem in range(tail[0], tail[1] + 1):\n                        yield heads + [elem]"),
 ('C07', 'hex_second_vector_from_wrong_side', K + 'Volume/Lattice.py',
  "    vertices_2, _ = hexVertices(surfaces, 2)", "    vertices_2, _ = hexVertices(surfaces, 4)"),
 ('C08', 'volume_count_off_by_one', K + 'Volume/VolumeT4.py',
  "            str_params.extend(('PLUS', len(self.pluses)))", "            str_params.extend(('PLUS', len(self.pluses) + (len(self.pluses) > 3)))"),
 ('C08', 'removed_ids_stay_in_unions', K + 'Volume/ConstructVolumeT4.py',
  "                new_args = tuple(cell for cell in val.ops[1]\n                                 if cell not in removed)", "                new_args = tuple(cell for cell in val.ops[1])"),
 ('C09', 'geomcomp_uses_container', K + 'GeomComp/ConstructGeomCompT4.py',
  "            volID = val.idorigin[0][0]", "            volID = val.idorigin[-1][1]"),
 ('C10', 'mass_number_two_digits', K + 'Composition/ConvertIsotope.py',
  "    massNumber = str(int(isotope_id[-3:]))", "    massNumber = str(int(isotope_id[-2:]))"),
 ('C10', 'nb_atom_inverted', K + 'FileHandlers/Writer/WriteT4Composition.py',
  "                        nb_atom = 'NB_ATOM' if mat.nb_atom else ''", "                        nb_atom = '' if mat.nb_atom else 'NB_ATOM'"),
 ('C10', 'rescale_without_total', K + 'Composition/ConstructCompositionT4.py',
  "        conc = float(normalize_float(frac)) * concentration / total_fractions", "        conc = float(normalize_float(frac)) * concentration"),
 ('C11', 'inverse_keeps_operator', 'MIP/geom/semantics.py',
  "            return GeomExpression((':', self[1].inverse(), self[2].inverse()))", "            return GeomExpression(('*', self[1].inverse(), self[2].inverse()))"),
 ('C11', 'grammar_levels_swapped', 'MIP/geom/grammars/geom.ebnf',
  "    | l:union o:':' r:isect", "    | l:union o:'*' r:isect"),
 ('C12', 'importance_cards_min', K + 'FileHandlers/Parser/ParseMCNPCell.py',
  "        max_importances = [max(*values) for values in zip(*importances)]", "        max_importances = [min(*values) for values in zip(*importances)]"),
 ('C12', 'conv_keys_ignore_importance', K + 'Volume/ConstructVolumeT4.py',
  "                 if value.importance != 0 and value.universe == 0", "                 if value.universe == 0"),
 ('C13', 'surface_eq_ignores_last_param', K + 'Surface/SurfaceT4.py',
  "            return (self.type_surface == other.type_surface\n                    and self.param_surface == other.param_surface\n                    and other.transform is None)",
  "            return (self.type_surface == other.type_surface\n                    and self.param_surface[:-1] == other.param_surface[:-1]\n                    and other.transform is None)"),
 ('C13', 'inline_score_le', K + 'Volume/CellInlining.py',
  "                    if score < max_inline_score)", "                    if score <= max_inline_score and score > 0)"),
 ('C14', 'comment_up_to_five_blanks', 'MIP/mip/cards.py',
  "re_comment = re.compile(r'^\\s{0,4}[cC](\\s|$)')", "re_comment = re.compile(r'^\\s{0,5}[cC](\\s|$)')"),
 ('C14', 'continuation_four_blanks', 'MIP/mip/cards.py',
  "re_continuation_spaces = re.compile(r'^\\s{5,}')", "re_continuation_spaces = re.compile(r'^\\s{4,}')"),
 ('C15', 'but_before_base', K + 'FileHandlers/Parser/ParseMCNPCell.py',
  "        return material, geometry, (options + ' ' + but_options)", "        return material, geometry, (but_options + ' ' + options)"),
 ('C16', 'reflection_cosinus_swapped', K + 'BoundaryCondition/CConversionBoundaryCondition.py',
  "            if p_boundCondMCNP == '*':\n                p_typeOfBC = 'REFLECTION'\n            if p_boundCondMCNP == '+':\n                p_typeOfBC = 'COSINUS'",
  "            if p_boundCondMCNP == '*':\n                p_typeOfBC = 'COSINUS'\n            if p_boundCondMCNP == '+':\n                p_typeOfBC = 'REFLECTION'"),
 ('C17', 'macrobody_any_length', K + 'Surface/MacroBodies.py',
  "    if len(params) not in expected:", "    if len(params) not in expected and len(params) < min(expected):"),
 ('C17', 'facet_range_unchecked', K + 'Volume/CellConversion.py',
  "            if p_tree.sub > len(t4_ids):", "            if p_tree.sub > len(t4_ids) + 6:"),
 ('C14', 'fill_transform_plain_float', K + 'FileHandlers/Parser/ParseMCNPCell.py',
  "        fill_params = [to_float(param)\n                       for param in self.pop_transform_args(kw_list)]",
  "        fill_params = [float(param)\n                       for param in self.pop_transform_args(kw_list)]"),
 ('C16', 'bc_ignores_renumbering', K + 'FileHandlers/Writer/WriteT4BoundCond.py',
  "            key = renumber.get(key, key)", "            key = key"),
 ('C16', 'bc_written_for_unused_surface', K + 'FileHandlers/Writer/WriteT4BoundCond.py',
  "        if used is not None and key not in used:\n            continue", "        if used is not None and key not in used:\n            pass"),
 ('C06', 'lattice_universe_not_shifted', K + 'Volume/CellConversion.py',
  "            else:\n                new_filltr = tuple(trnsf)", "            else:\n                new_filltr = tuple([0., 0., 0.] + trnsf[3:])"),
 ('C17', 'fill_array_too_long_accepted', K + 'FileHandlers/Parser/ParseMCNPCell.py',
  "            if kw_list and (kw_list[-1][0] in '0123456789.+-'\n",
  "            if kw_list and False and (kw_list[-1][0] in '0123456789.+-'\n"),
 ('C18', 'class_level_transform_cache', K + 'Volume/CellConversion.py',
  "        self.cell_transform_cache = {}\n", "        self.cell_transform_cache = CellConversion._shared_cache\n"),
 ('C18', 'unsorted_volume_sets', K + 'Volume/VolumeT4.py',
  "            str_params.extend(sorted(self.minuses))", "            str_params.extend(sorted(self.minuses, key=lambda s: hash(str(s))))"),
]
EXTRA = {('C18', 'class_level_transform_cache'): (K + 'Volume/CellConversion.py', "class CellConversion:\n    '''Class which contains methods to convert the Cell of MCNP in T4 Volume'''\n",
          "class CellConversion:\n    '''Class which contains methods to convert the Cell of MCNP in T4 Volume'''\n    _shared_cache = {}\n")}
def main():
    out = os.path.join(HERE, 'mutants')
    os.makedirs(out, exist_ok=True)
    for f in os.listdir(out):
        if f.endswith('.patch'):
            os.remove(os.path.join(out, f))
    wt = tempfile.mkdtemp(prefix='mutgen.')
    subprocess.check_call(['git', '-C', '/repo', 'worktree', 'add', '-q', '--detach', wt, 'HEAD'])
    try:
        for prop, name, path, old, new in M:
            edits = [(path, old, new)]
            if (prop, name) in EXTRA:
                edits.append(EXTRA[(prop, name)])
            ok = True
            for pth, o, n in edits:
                full = os.path.join(wt, pth)
                s = open(full).read()
                if s.count(o) != 1:
                    print('!! %s %s: pattern found %d times in %s' % (prop, name, s.count(o), pth))
                    ok = False
                    break
                open(full, 'w').write(s.replace(o, n))
            if ok:
                diff = subprocess.check_output(['git', '-C', wt, 'diff']).decode()
                open(os.path.join(out, '%s-%s.patch' % (prop, name)), 'w').write(diff)
            subprocess.check_call(['git', '-C', wt, 'checkout', '-q', '--', '.'])
    finally:
        subprocess.call(['git', '-C', '/repo', 'worktree', 'remove', '--force', wt])
    print(len([f for f in os.listdir(out) if f.endswith('.patch')]), 'mutants written')
main()
