#!/usr/bin/env python3
"""Regenerate /verif/MANIFEST.json from the table below (single source of truth)."""
import json, os
HERE = os.path.dirname(os.path.dirname(os.path.abspath(__file__)))
BASE_OFF = ("cd /repo && rm -rf .hypothesis && env -u T4_GEOM_CONVERT_VERIF /venv/bin/python -m pytest -ra -q "
            "-p no:cacheprovider --timeout=900 --continue-on-collection-errors --hypothesis-seed=0")
TRUST = ("TLC; the reading of MCNP/TRIPOLI-4 semantics written down in DESIGN.md section 4; the PEG parser shim "
         "(harness/vt4/shim.py) standing in for TatSu; the .t4 tokenizer and numeric SURF evaluator "
         "(harness/vt4/t4file.py); the concretiser that spells abstract decks as MCNP text")
CHECKS = {
 'C14': dict(cat='model_checking', ref='6/C14',
   text=("Cards.tla is a line-level machine: a reference reader of deck text (comment lines, 5-blank and & continuation, $ "
         "comments, 8-column tab stops, message block, case, nR) and rewrite actions (case, blanks/tabs, both kinds of "
         "continuation, comment lines, in-line comments, message block, number spellings, repeat shorthand); TLC checks that "
         "every rewrite preserves the reference reading (SameMeaning), exhaustively for single rewrites and on sampled "
         "sequences up to depth 6; each explored text is read by the real get_cards()/Card.content() and converted, and "
         "TraceCards.tla compares card segmentation and outputs with the seed's."),
   technique='TLA+ line machine with reference reader and rewrite actions (Cards.tla) explored by TLC; explored texts replayed into the real reader and converter, validated by TLC (TraceCards.tla)'),
 'C18': dict(cat='model_checking', ref='6/C18',
   text=("Session.tla enumerates every history of Convert(deck, options) calls up to length 3 over 6 decks (plain, FILL with "
         "cache reuse, same numbers with other definitions under the same transformations, lattice with --lattice, LIKE-BUT, "
         "one that raises) x 3 option sets; histories are replayed in one interpreter and TraceSession.tla compares every output "
         "with the table of outputs from fresh processes, itself required to be identical under 3 hash seeds; input file and "
         "directory are checked to be untouched."),
   technique='sequential-object TLA+ spec (Session.tla) enumerated by TLC; histories replayed into the real entry point and validated by TLC (TraceSession.tla)'),
 'C17': dict(cat='fault_enumeration', ref='6/C17',
   text=("Faults.tla enumerates every fault record (class, site, variant) from its tables of what MCNP admits (entry counts of "
         "all surface mnemonics and macrobodies, facets per body, FILL-array length, IMP cards, material signs, --lattice "
         "syntax, m=-1 on TR card / inline FILL / inline TRCL, lattice without usable --lattice); each is injected into the "
         "valid base deck of its class and run through the real entry point with its un-injected control; TraceFault.tla: "
         "control converts, injected run ends in a diagnostic raised by the repo, never finished, never an incidental error. "
         "FaultSites.tla then defines, for every valid generated deck of nine generator families, the fault records of every "
         "applicable card (surfaces named by converted cells, macrobody leaves, used TR cards, inline FILL/TRCL "
         "transformations, lattice cells, IMP and material cards); each record is applied to the abstract deck and judged "
         "the same way."),
   technique='fault classes as actions of a TLA+ spec (Faults.tla) enumerated exhaustively by TLC, and the fault sites of every generated deck defined by a TLA+ spec (FaultSites.tla) evaluated by TLC; outcomes of the real entry point validated by TLC (TraceFault.tla)'),
 'C10': dict(cat='model_checking', ref='6/C10',
   text=("GenMat.tla enumerates material cards (Z=1..118, mass numbers 000/001/typical/three digits, repeated nuclides, "
         "library suffixes, keyword entries, fractions of one sign or mixed, several spellings) and cell densities of both "
         "signs; each is converted on a one-cell deck and TraceCompo.tla compares the written COMPOSITION block with "
         "Material!Expected (names, order, block type, NB_ATOM flag, amounts) in exact rational arithmetic."),
   technique='TLA+ spec of the card->composition mapping (Material.Expected) enumerated/sampled by TLC; written blocks validated by TLC'),
 'C16': dict(cat='model_checking', ref='6/C16',
   text=("GenBC.tla puts reflecting/white flags on up to three surfaces of a small geometry in every position (duplicate of an "
         "earlier/later surface, unused surface, one-sheet cone, macrobody), converted with and without de-duplication; "
         "TraceDeck.tla clause bc: exactly one entry of the right kind per flagged surface bounding a converted cell, naming a "
         "SURF of the file with the flagged surface's polynomial; no other entry; flagged macrobody rejected."),
   technique='TLA+ boundary-condition clause (TraceDeck.BCVerdict) checked by TLC on files written for the exhaustively enumerated flag assignments'),
 'C06': dict(cat='model_checking', ref='6/C06',
   text=("GenLat.tla builds LAT=1 unit cells from base vectors (1-3 D, orthogonal and skew, any orientation, either plane of "
         "a pair listed first, planes optionally written with negated coefficients), ranges (negative, degenerate), fill "
         "arrays over {0, own universe, u2, u3} or FILL=n with --lattice, lattice and container transformations; TLC checks the "
         "declarative base-vector conditions (LatticeVecsOK) on every deck and TraceDeck.tla locates each probe point through "
         "McnpSem.Locate's element lookup and compares owner, provenance (consistent element keys) and composition; every "
         "third deck is also converted with the whole world moved by a general rigid motion (covariance)."),
   technique='TLA+ spec of lattice element lookup (McnpSem.Locate, GenLat.LatticeVecsOK) checked by TLC against conversions of TLC-generated lattice decks'),
 'C07': dict(cat='model_checking', ref='6/C07',
   text=("GenHex.tla builds LAT=2 unit cells from integer parallelogon hexagons (incl. the irregular hexagon of the "
         "converter's docstring) in five orientations with 6 or 8 planes, the pairs listed in any order and either plane "
         "first, and states MCNP's index convention declaratively (HexVecsOK, checked by TLC on every deck); validation as C06. "
         "Regular hexagons in general orientation are reached by covariance: decks whose hexagon is an affine image of a "
         "regular one are converted after the affine map (irrational normals) while TLC keeps the exact integer deck; "
         "every third deck is also converted with the whole world moved by a general rigid motion."),
   technique='TLA+ spec of the hexagonal index convention (GenHex.HexVecsOK, McnpSem.Locate) checked by TLC against conversions of TLC-generated decks'),
 'C05': dict(cat='model_checking', ref='6/C05',
   text=("GenUniv.tla behaviours (nesting to depth 3, one universe reused in two containers, FILL transformations by "
         "number/inline/starred/3-entry incl. the explicit null translation, FILL without transformation following the "
         "container's TRCL, TRCL together with a FILL transformation, a filler with its own TRCL) are converted under sampled "
         "inline/dedup options; TraceDeck.tla locates every probe point by carrying it down the hierarchy (McnpSem.Locate) "
         "and compares owner and (filler, container) provenance with the written file; every third deck is also converted "
         "with the whole world (every frame) moved by a general rigid motion, and every third deck is renumbered (fixed maps "
         "or a member of the family of Numberings.tla admissible for the deck)."),
   technique='TLA+ spec of hierarchical point location (McnpSem.Locate) checked by TLC against conversions of TLC-generated universe decks'),
 'C09': dict(cat='model_checking', ref='6/C09',
   text=("Universe, Boolean and LIKE-BUT decks are decorated with materials and densities drawn from value classes in several "
         "spellings; TraceDeck.tla clause compo: the composition attached to the owner of every probe point is defined, encodes "
         "the material and density value of the lowest-level cell found by Locate (void -> m0), and cells of one material "
         "share a composition iff their densities are in one value class."),
   technique='TLA+ composition clause (TraceDeck.CompoVerdict over McnpSem.Locate) checked by TLC on files written for TLC-generated decks'),
 'C13': dict(cat='model_checking', ref='6/C13',
   text=("Each generated deck (universes/FILL and Boolean) is converted under all 8 flag combinations and sampled inline "
         "thresholds; every output is validated by TraceDeck.tla against the single reference meaning (owner, provenance, "
         "composition of every probe point), so all outputs agree pairwise; the number of decks whose outputs differ "
         "textually is reported. PipelineD.tla / PipelineD2.tla (deterministic transcriptions of the Boolean core over "
         "duplicate classes and of FILL development + inlining + cell references) are model-checked for EVERY option set "
         "(MeaningPreserved, InlineSound, Wellformed) and every behaviour is replayed into the real entry point."),
   technique='one TLA+ reference meaning per deck (McnpSem) validated by TLC against the outputs of every option set; deterministic TLA+ transcriptions of the passes (PipelineD, PipelineD2) model-checked by TLC and replayed into the real code'),
 'C15': dict(cat='model_checking', ref='6/C15',
   text=("GenLike.tla enumerates base cells and BUT lists (subsets of MAT, RHO, IMP, FILL, U plus TRCL, LIKE-of-LIKE) and "
         "defines ExpandLike; each abstract deck is written with LIKE cards and with explicit cards, both are converted, the "
         "outputs must be identical and match McnpSem.Locate (owner, composition, zero-importance clause)."),
   technique='TLA+ spec of LIKE n BUT expansion (GenLike.Override) enumerated by TLC; two concretisations converted by the real code, validated by TLC'),
 'C04': dict(cat='model_checking', ref='6/C04',
   text=("GenTr.tla enumerates (surface sample incl. one-sheet cones, tori, SQ/GQ, macrobodies) x (24 proper signed-"
         "permutation rotations) x displacement x carrier (TR number on the surface, TRCL by number/inline/starred, implicit "
         "surface 1000*c+s with both or only negative sense) x spelling (12, 13 with m=1, starred, two rows or two columns "
         "with J); McnpSem.Locate carries the point into the auxiliary frame while the converter moves the surfaces, "
         "TraceDeck.tla compares owners and the exact polynomial identity of TR-carrying surfaces. Abbreviated matrices "
         "(9/6/5/3 supplied entries of rational rotations) go through normalize_transform() and TraceMatrix.tla checks the "
         "completion predicate exactly (approximately for the irrational 3-entry completions)."),
   technique='TLA+ spec of MCNP rigid motions (Geom/McnpSem, GenTr!IsCompletion) checked by TLC; generated decks and matrices replayed into the real code and validated by TLC'),
 'C03': dict(cat='model_checking', ref='6/C03',
   text=("GenBody.tla enumerates macrobody cards of every kind (axis-aligned and oblique frames, both handednesses, all "
         "orders of the edge vectors, both parameterisations of RHP/HEX, REC, ELL, both openings of TRC, ARB with permuted "
         "facet lists); each body and each facet is converted in a deck with the probe cells -b/+b resp. -b.k/+b.k and "
         "TraceDeck.tla compares the owners of a half-integer grid with McnpSurf.InBody/FacetSense."),
   technique='TLA+ transcription of the macrobody definitions (McnpSurf.Facets) enumerated by TLC; conversions of the real code validated by TLC on sense rows'),
 'C02': dict(cat='model_checking', ref='6/C02',
   text=("GenSurf.tla enumerates surface cards of every mnemonic over parameter grids covering the converter's case "
         "splits (small grid exhaustively, large grid exhaustively in thorough / sampled in quick); each card is converted "
         "in a one-surface deck with probe cells -s/+s; TraceDeck.tla decides the sense on a half-integer grid against "
         "McnpSurf.RefSense and, for polynomial cards, the exact polynomial identity of the emitted SURF with "
         "McnpSurf.CardQ (same zero set at all points)."),
   technique='TLA+ transcription of the MCNP surface equations (McnpSurf) enumerated by TLC; one conversion of the real code per generated card, validated by TLC (sense rows + exact coefficient identity)'),
 'C01': dict(cat='model_checking', ref='6/C01',
   text=("GenBool.tla behaviours (priority partitions over surface cards incl. collections, duplicates, #n and #( )) "
         "are concretised and converted by the real code; TraceDeck.tla recomputes MCNP's owner of every probe point "
         "with McnpSem.Locate in exact integer arithmetic and compares with the owners T4Sem derives from the written "
         "file (ids and provenance included). Sampled behaviours plus a small exhaustive slice; points: 96 per deck."),
   technique='TLA+ spec (McnpSurf/McnpSem/T4Sem/GenBool/TraceDeck) checked by TLC; generated decks replayed into the converter, outputs trace-validated by TLC'),
 'C08': dict(cat='model_checking', ref='6/C08',
   text=("T4Sem.FileValid (unique definitions, resolvable references, declared counts, no surface on both sides, finite "
         "numbers, GEOMCOMP/COMPOSITION/BOUNDARY_CONDITION relations, acyclic references) is evaluated by TLC on the "
         "tokenised output of every generated deck under sampled option combinations."),
   technique='TLA+ structural-validity predicate (T4Sem.FileDefects) evaluated by TLC on files written by the real converter for TLC-generated decks'),
 'C12': dict(cat='model_checking', ref='6/C12',
   text=("GenImp.tla enumerates importance sources (cell keywords for two particle types in either order, one or two IMP "
         "data cards with nR/xM/nI shorthand specified by ExpandData, a universe between level-0 cells) and GenBool decks "
         "vary the position of zero-importance cells; TraceDeck.tla checks NOTE list = zero-importance level-0 cells, no "
         "VOLU or provenance for them, and ownership of every probe point of the other cells."),
   technique='TLA+ spec of importance assignment (GenImp.ExpandData, TraceDeck zeroimp/owner clauses) checked by TLC against recorded conversions'),
 'C11': dict(cat='model_checking', ref='6/C11',
   text=("TLC enumerates every expression tree up to a size bound (and samples beyond it), checks the reference "
         "reader and De Morgan elimination of Expr.tla on each, and validates the trees recorded from the repo's "
         "real get_ast()+pot_complement() for each token string in three spacing styles on all 2^n sense assignments. "
         "Exhaustive within the bound, sampled beyond; a bounded guarantee is the right level for an unbounded input language."),
   technique='TLA+ spec (Expr/GenExpr/TraceExpr) checked by TLC; spec-generated inputs replayed into the real parser, recorded trees trace-validated by TLC'),
}
NOT_YET = 'check not built yet (work in progress, see DESIGN.md section 12)'
def main():
    props = [json.loads(l) for l in open(os.path.join(HERE, 'properties.jsonl'))]
    hooks_file = os.path.join(HERE, 'hooks_commits.txt')
    commits = [l.split()[0] for l in open(hooks_file)] if os.path.exists(hooks_file) else []
    m = {'version': 1,
         'setup_cmd': 'cd /verif && ./setup.sh',
         'hooks': {'guard': 'T4_GEOM_CONVERT_VERIF',
                   'enable': 'checks export T4_GEOM_CONVERT_VERIF=1 and import /repo from its working tree (pure Python, no build step)',
                   'baseline_off_cmd': BASE_OFF, 'source_commits': commits, 'add_only': True},
         'engines': [{'name': 'tlc', 'path': 'spec/', 'serves_properties': sorted(CHECKS),
                      'kind_free_text': 'explicit TLA+ specification checked by TLC; generators replayed into the real code, recorded traces validated against the specification'}],
         'checks': [], 'not_applicable': [],
         'notes': 'exit status 2 of a check means machinery failure (TLC or harness error), never a violation'}
    for p in props:
        pid = p['id']
        if pid in CHECKS:
            c = CHECKS[pid]
            m['checks'].append({'property_id': pid, 'quick_cmd': './check %s quick' % pid,
                                'thorough_cmd': './check %s thorough' % pid,
                                'evidence_file': '/verif/evidence/%s.json' % pid,
                                'replay_cmd_template': './check %s --replay {path}' % pid,
                                'engine': 'tlc',
                                'level_claimed': {'category': c['cat'], 'text': c['text'], 'design_ref': 'DESIGN.md section ' + c['ref']},
                                'level_note': c.get('note', TRUST), 'technique': c['technique']})
        else:
            m['not_applicable'].append({'property_id': pid, 'reason': NOT_YET})
    json.dump(m, open(os.path.join(HERE, 'MANIFEST.json'), 'w'), indent=1)
    print('checks:', [c['property_id'] for c in m['checks']])
main()
